#!/bin/sh
# tools/mkpatch.sh <relative file in repo> <sed expr> > patch.diff   (helper to write mutants)
set -e
F="$1"; E="$2"
T=$(mktemp -d /var/tmp/mkp.XXXXXX); trap 'rm -rf "$T"' EXIT
mkdir -p "$T/a/$(dirname "$F")" "$T/b/$(dirname "$F")"
cp "/repo/$F" "$T/a/$F"; sed "$E" "/repo/$F" > "$T/b/$F"
if cmp -s "$T/a/$F" "$T/b/$F"; then echo "mkpatch: sed expression changed nothing" >&2; exit 2; fi
(cd "$T" && diff -u "a/$F" "b/$F") || true
