#!/usr/bin/env python3
"""Regenerates MANIFEST.json from tools/manifest_data.py (single source of truth)."""
import json, os, sys
HERE = os.path.dirname(os.path.dirname(os.path.abspath(__file__)))
sys.path.insert(0, os.path.join(HERE, "tools"))
import manifest_data as md

checks = []
for pid, c in sorted(md.CHECKS.items()):
    checks.append({
        "property_id": pid,
        "quick_cmd": f"./check {pid} quick",
        "thorough_cmd": f"./check {pid} thorough",
        "evidence_file": f"/verif/evidence/{pid}.json",
        "replay_cmd_template": f"./check {pid} --replay {{path}}",
        "engine": "symx",
        "level_claimed": {"category": c.get("category", "model_checking"), "text": c["text"],
                          "design_ref": c.get("design_ref", "DESIGN.md §3")},
        "level_note": c["note"],
        "technique": c["technique"],
    })
m = {
    "version": 1,
    "setup_cmd": "./setup.sh",
    "hooks": {"guard": "VOPY_VERIF", "enable": "no hooks are compiled in: checks import /repo's working tree and "
              "redirect module globals (np, cp, sp, minimize, ...) in their own process",
              "baseline_off_cmd": "cd /repo && /venv/bin/python -m pytest -ra -q -p no:cacheprovider --timeout=900 --continue-on-collection-errors",
              "source_commits": md.HOOK_COMMITS, "add_only": True},
    "engines": [{"name": "symx", "path": "/verif/symx", "serves_properties": sorted(md.CHECKS),
                 "kind_free_text": "purpose-built symbolic executor: real VOPy/numpy code runs on object arrays of z3 "
                 "real terms; DFS over decision prefixes; per-path obligations discharged by z3 (LRA/NRA); "
                 "counterexamples replayed on the real unpatched code"}],
    "checks": checks,
    "not_applicable": [{"property_id": k, "reason": v} for k, v in sorted(md.NOT_APPLICABLE.items())],
    "notes": md.NOTES,
}
json.dump(m, open(os.path.join(HERE, "MANIFEST.json"), "w"), indent=1, ensure_ascii=False)
print("MANIFEST.json written:", len(checks), "checks,", len(m["not_applicable"]), "not applicable")
