HOOK_COMMITS = []
NOTES = ("Solver-based checking of the real code: see DESIGN.md (section 8 describes the machinery as built). Exit codes: "
         "0 held within the stated bounds (KNOWN-FINDING lines for open entries of known_findings.json) / 1 VIOLATION with a "
         "replay that reproduces on the real code / 3 inconclusive (solver unknown, budget, non-reproducing model) — never "
         "reported as success. Runs against a scratch copy (VERIF_REPO != /repo, see tools/with_patch.sh) do not touch "
         "/verif/evidence. 73 independently seeded changes are under seeded/ (all detected by the quick tier).")

REAL = "floats encoded as exact reals (binary64 rounding outside the claim); "

CHECKS = {
 "C09": dict(
    text="Bounded symbolic model checking of the real is_dominated code: every feasible path over symbolic regions "
         "and slacks is explored and the returned boolean is proved (z3, unsat) equal to the closed-form ∀∀ "
         "specification, boundary included; holds for all real-valued regions within the stated cone set and dimensions.",
    note=REAL + "cone set = bundled cones + seeded random rational cones, m<=3, K<=6; ellipsoids via exact-optimum "
         "cvxpy stub and T=Σ^(-1/2) parametrisation",
    technique="symbolic execution of the real numpy code on z3 reals + SMT (QF_LRA/QF_NRA) per path",
    design_ref="DESIGN.md §3 C09"),
 "C13": dict(
    text="Bounded symbolic model checking of the real get_pareto_set / get_pareto_set_naive: every order type of N "
         "symbolic vectors that the elimination loop distinguishes is a path; on each the concrete returned index list is "
         "proved (z3) to satisfy the Pareto specification (no returned vector strictly dominated, every input weakly "
         "dominated by a returned one, duplicates once / all copies kept, indices valid-distinct-increasing).",
    note=REAL + "N<=4 (quick) / 5 (thorough) vectors, m<=3, cone set as C09; naive routine: vectors either equal or "
         "separated beyond numpy.allclose's tolerance",
    technique="symbolic execution of the real numpy code on z3 reals + SMT (QF_LRA) per path",
    design_ref="DESIGN.md §3 C13"),
 "C12": dict(
    text="Order laws (facet characterisation, reflexive, transitive, translation/scale invariance, antisymmetry, batched = "
         "per-row) are proved by z3 on the merged symbolic value of the real dominates/is_inside code for every cone of the "
         "set and for a fully symbolic 2x2 (thorough: 3x2, 3x3) cone matrix; the θ-cone's angle semantics is proved for all "
         "θ in (0,180) at once on the symbolic output of the real get_2d_w (half-angle parametrisation), 3-D and ice-cream "
         "cones on the real constructors' output in exact arithmetic. Integer-dtype cone matrices are included (a float→int "
         "cast met on the way is modelled as truncation toward zero). A concrete binary64 clause enumerates lattice pairs "
         "whose difference lies exactly on a facet (exactly computable ties only) at many common offsets.",
    note=REAL + "trusted trig identities tan(π/4∓h)=(c∓s)/(c±s), tan(π/2−θ)=cosθ/sinθ; ice-cream half-angle on a grid "
         "(symbolic θ did not terminate in nlsat); mpmath enclosures with 1e-9 band at concrete angles",
    technique="symbolic execution of the real numpy code on z3 reals + SMT (QF_LRA/QF_NRA)",
    design_ref="DESIGN.md §3 C12"),
 "C14": dict(
    text="Bounded symbolic model checking of the real design_space.update / region update / intersect code on a stub "
         "posterior with symbolic means, covariances and scales: for every index list (every subset in every order, incl. "
         "single designs) the updated regions are proved equal to mean ± scale·sqrt(var) (rectangle) or (mean, cov, scale) "
         "(ellipsoid), other designs untouched; intersection semantics and lower<=upper by one-step induction. The stub's "
         "shape contract is validated concretely against the four real model classes on every run.",
    note=REAL + "N<=4 designs, m<=3; stub posterior contract (n,m)/(n,m,m); numerical content of real predictions is C15",
    technique="symbolic execution of the real numpy code on z3 reals + SMT (QF_NRA) per path; concrete contract validation",
    design_ref="DESIGN.md §3 C14"),
 "C16": dict(
    text="Bounded symbolic model checking of the real EmpiricalMeanVarModel: enumerated call skeletons (<=3 batches, "
         "update/clear interleaved, in/out-of-range and repeated indices, list/set/tuple/ndarray containers, all tracking "
         "flags) executed with symbolic sample values; predictions proved equal (z3) to an independent accumulator.",
    note=REAL + "design_count<=3, output_dim 2, histories of <=3 batches of <=3 rows; discrete skeleton enumerated, values symbolic",
    technique="symbolic execution of the real numpy code on z3 reals + SMT per call skeleton",
    design_ref="DESIGN.md §3 C16"),
 "C20": dict(
    text="Bounded symbolic model checking of the real problem classes: nearest-design lookup on symbolic datasets and "
         "queries (every order type of the distances is a path; returned rows proved to be a nearest design's output), "
         "noise law by linearity in a symbolic standard-normal draw with AᵀA = configured covariance, decoupled evaluation "
         "by term identity against a recording stub, input immutability on every path (incl. the x_1 == 0 branch of "
         "BraninCurrin), normalise/unnormalise inverses; bundled-dataset scaling checked concretely.",
    note=REAL + "N<=4 designs, dim<=3, batch<=2; stubs: exact euclidean_distances, Cholesky contract, np.random.normal as "
         "fresh symbolic matrix; Gaussianity of the draw and sklearn's rounding near ties are outside",
    technique="symbolic execution of the real numpy code on z3 reals + SMT (QF_NRA) per path",
    design_ref="DESIGN.md §3 C20"),
 "C10": dict(
    text="Two-stage bounded symbolic model checking of the real is_covered code (rectangles: LP; ellipsoids: SOCP) on an "
         "exact-answer cvxpy stub: on every path the program VOPy built is proved (z3, witness instantiation, QF) feasible "
         "exactly when the oracle's ∃∃ statement holds and the status is mapped to the right boolean; refutations are "
         "sharpened by Farkas certificates (exact disagreement query) and replayed on the real code with real cvxpy.",
    note=REAL + "m<=3, K<=6, cone set as C09; cvxpy replaced by a contract stub (exact statuses; *_inaccurate/SCS fallback "
         "outside); ellipsoid shapes via T=Σ^(-1/2), radii>0",
    technique="symbolic execution of the real numpy/cvxpy-building code + SMT (QF_LRA/QF_NRA), Farkas certificates",
    design_ref="DESIGN.md §3 C10"),
 "C19": dict(
    text="Bounded symbolic model checking of the real get_smallmij/get_delta/utils.is_covered/ε-F1 code on symbolic value "
         "vectors: m(i,j) and the gaps are proved equal to the definition (closed form with each facet's own α_n, and the "
         "semantic statement over every unit cone direction), ε-coverage to its ∃-definition through the cvxpy stub, and the "
         "ε-F1 laws (range, =1 on the true Pareto set, permutation invariance, monotone in ε) as relational obligations; the "
         "counting loops get_uncovered_size / get_uncovered_set are proved to report exactly the points no prediction ε-covers.",
    note=REAL + "N<=3 vectors, m=2 (3 for m(i,j)); α taken from VOPy's own get_alpha_vec (its optimality is C17) with "
         "relative tolerance 1e-6; hypervolume clause not encodable (botorch tensors)",
    technique="symbolic execution of the real numpy code on z3 reals + SMT (QF_NRA) per path",
    design_ref="DESIGN.md §3 C19"),
 "C17": dict(
    text="Program extraction through contract stubs of cvxpy and scipy.optimize.minimize: the real get_alpha / compute_u_star "
         "code is executed symbolically and the program it builds is proved (z3) to be the defining one (feasible set, "
         "objective) with the returned numbers read off it correctly (α_n = attained maximum, u* = z*/‖z*‖, d1 = ‖z*‖, "
         "W u* > 0, optimality by instantiation); β(θ) = 1/sin θ | 1 for all θ at once; the numerical outputs of the real "
         "solvers are compared with independent KKT / active-set oracles on the cone set.",
    note=REAL + "numerical convergence of ECOS/Clarabel/SLSQP is not decided symbolically (concrete comparison on the cone "
         "set only); symbolic-θ optimality of α returned unknown in nlsat and is replaced by the θ grid",
    technique="symbolic execution with solver stubs (program extraction) + SMT (QF_NRA); concrete oracle comparison",
    design_ref="DESIGN.md §3 C17"),
 "C11": dict(
    text="Bounded symbolic model checking of the real is_pt_in_extended_polytope / line_seg_pt_intersect_at_dim edge search "
         "for an arbitrary symbolic point against a normalised rectangle with symbolic aspect ratio under each 2-D cone of "
         "the grid: True ⇒ no separating direction exists (soundness), False ⇒ no dominated point with margin exists "
         "(completeness, 2x2 cones) — both as refutations of an existential certificate on every path; check_dominates' "
         "vertex loop checked by call-structure identity for all cones incl. 3-D and K>m.",
    note=REAL + "θ grid (angles between grid points outside); translation/scale invariance used to normalise R2 (validated "
         "concretely); separating-hyperplane theorem and convexity of R2+C trusted; 3-D point level only on concrete samples",
    technique="symbolic execution of the real numpy code on z3 reals + SMT (QF_NRA) per path",
    design_ref="DESIGN.md §3 C11"),
 "C02": dict(
    text="One round of the real discarding code of all seven elimination algorithms from every pre-state (every assignment of "
         "N designs to S/U/P/gone) with arbitrary regions: the region predicates are table look-ups forked on demand, and the "
         "post-state is proved (z3) equal to the reference transition from the property text for every table valuation; Auer's "
         "inline arithmetic is executed symbolically with per-design, per-objective widths. Refuting tables are realised as "
         "concrete regions by exact definitions (closed forms, Farkas certificates) and replayed on the real code.",
    note="conditional on C09/C10/C11 (predicate code = geometric specification); N<=3 (4 thorough), m=2 (3); one round from an "
         "arbitrary state covers every history for that N; " + REAL,
    technique="symbolic execution of the real phase code with predicate summaries + SMT; realisation by Farkas certificates",
    design_ref="DESIGN.md §3 C02/C03"),
 "C03": dict(
    text="As C02 for pareto_updating / epsiloncovering / useful_updating (and Auer's P1 / hold-back logic): a design enters P "
         "exactly when the reference says so, P never loses members, U' is the reference's useful set; Auer with homogeneous, "
         "per-design and per-objective widths attached to designs (the oracle indexes widths by design).",
    note="conditional on C09/C10/C11; N<=3 (4 thorough), m=2 (3); " + REAL,
    technique="symbolic execution of the real phase code with predicate summaries + SMT; realisation by Farkas certificates",
    design_ref="DESIGN.md §3 C02/C03"),
 "C06": dict(
    text="k consecutive real run_one_step() calls of all nine algorithm classes on a stub posterior (fresh symbolic "
         "prediction per call), a recording problem (fresh symbolic observations), symbolic costs/budget and free-oracle "
         "region predicates: on every path and every prefix S only shrinks, P only grows, S∩P=∅, U⊆P, no design returns, "
         "completion is reported exactly when it should, calls after completion change nothing, the round counter and the "
         "sample/cost accounting match the evaluations actually requested; any exception on a feasible path is a "
         "counterexample. The never-crash clause with the real predicates is additionally swept over a configuration grid.",
    note=REAL + "N=2 designs, 2-3 steps (+2 after completion), batch 1 and 3; free-oracle predicates over-approximate real "
         "behaviour; real GP numerics outside; one open known finding (rectangle slack size with K != m cones)",
    technique="symbolic execution of the real run loop with nondeterministic stubs + SMT; concrete configuration sweep",
    design_ref="DESIGN.md §3 C06"),
 "C07": dict(
    text="The real discrete optimisers are executed on arbitrary symbolic acquisition tables (every comparison order incl. "
         "ties is a path): each pick attains the maximum over the not-yet-picked rows, picks are distinct rows in "
         "non-increasing order, the decoupled optimiser returns a top-q set of (design, objective) pairs and restores the "
         "evaluation index; acquisition rules proved on symbolic regions/posteriors; the algorithms' evaluating() on "
         "recording stubs requests only active designs (bandit classes: each once) and hands exactly the returned "
         "observation terms, inputs and objective indices to the model.",
    note=REAL + "n<=4 choices, q<=4, out_dim<=2(3); runs: N=2, 2 steps; Thompson sampling randomness and real posteriors outside",
    technique="symbolic execution of the real numpy code on z3 reals + SMT per path; term identity on recording stubs",
    design_ref="DESIGN.md §3 C07"),
 "C01": dict(
    text="Whole-run guarantee decided by ONE inductive step of the real discarding/pareto_updating/useful_updating code (Auer: "
         "discarding/pareto_updating inline) from every invariant-satisfying state with symbolic regions and truths: J1 "
         "(eliminated designs are dominated by kept ones), J2 (members of P have gap ≤ ε), J3 (dropped Pareto designs cannot "
         "ε-exceed candidates) are proved inductive by z3; S=∅ ∧ J1 ∧ J2 is the property's consequent. Failures of the step "
         "from the initial state are realised as concrete regions + truths and replayed on the real code (two open known "
         "findings).",
    note="conditional on C09/C10/C17; N<=3 (4) designs, rounds unbounded for that N; ellipsoids of any shape via support "
         "intervals, cones incl. K != m; rectangles for K = m; relative tolerance 1e-6 on ε; " + REAL,
    technique="inductive invariant checking by symbolic execution of the real phase code + SMT (QF_LRA)",
    design_ref="DESIGN.md §3 C01/C05"),
 "C05": dict(
    text="As C01 for VOGP and ε-PAL: K1 (ε-isolated optima stay in S∪P), K2 (P internally non-ε-dominated), K3 (no candidate "
         "ε-dominates a member of P) are proved inductive on the real discarding/epsiloncovering code; S=∅ ∧ K1 ∧ K2 is the "
         "property's consequent.",
    note="conditional on C09/C10/C17; N<=3 designs, K = m cones (VOGP), orthant (ε-PAL); " + REAL,
    technique="inductive invariant checking by symbolic execution of the real phase code + SMT (QF_LRA)",
    design_ref="DESIGN.md §3 C01/C05"),
 "C18": dict(
    text="Cell level: the real refine_design/generate_child_designs code on a cell with symbolic bounds — 2^d children, half "
         "side lengths, centre points, depth+1, parent's region, coverage of the parent and pairwise interior-disjointness "
         "proved by z3 (any cell, hence any depth, by induction), depth gate checked. Run level: every path of k real "
         "VOGP_AD.run_one_step() calls from the root (every refine / sample / discard / cover choice): active nodes are "
         "leaves, leaves tile the unit cube, a refined node is replaced by its children in the same set, members of P are at "
         "the maximum depth and appear only after the latch.",
    note=REAL + "d<=3 (cell level); d=1, max depth 3, 3-4 steps (run level); refinement decision nondeterministic below the "
         "depth gate; Vh formula and real GP behaviour outside",
    technique="symbolic execution of the real numpy code on z3 reals + SMT (QF_LRA); exhaustive path exploration of the run loop",
    design_ref="DESIGN.md §3 C18"),
 "C08": dict(
    text="Clause B (model checking): the real run_one_step / P code of NaiveElimination on symbolic observation blocks — after "
         "every round the stored samples are exactly the returned observations and P is proved (z3) to be the exact Pareto set "
         "of the arithmetic means; accounting and termination on every path. Clause A (formula level): the symbolic term the "
         "real constructor computes for the default L (symbolic noise variance and ε; θ, δ, K on a grid) is proved (NRA) to "
         "dominate the necessary sample count of the two-design instance with gap just above ε; refutations are confirmed by "
         "the closed-form failure probability of that instance on the real class, and to reach the paper's sufficient count "
         "4(cσβ/ε)²ln(·) with β from the θ-cone's closed form (one-sided). The sampling oracle's noise law (AᵀA = noise_var·I "
         "on the real ProblemFromDataset) is an obligation too.",
    note=REAL + "clause A is a necessary condition (two-design instance, Gaussian noise); sufficiency for arbitrary design sets "
         "is the paper's lemma; K=3, L<=3 for clause B",
    technique="symbolic execution of the real numpy code on z3 reals + SMT (QF_LRA / NRA with an integer ceil)",
    design_ref="DESIGN.md §3 C08"),
 "C04": dict(
    category="other",
    text="Formula-level decision with a trusted analytic base: the scale each algorithm's real compute_radius/compute_alpha/"
         "compute_beta returns is extracted by symbolic execution (round, δ, design count, noise variance symbolic; ln opaque with "
         "its argument recorded), pushed through the real design_space.update / region update, and the resulting standardised "
         "half-width (rectangles) or squared radius (ellipsoids) is proved by z3 (NRA) large enough that a standard Gaussian / "
         "χ² tail bound times the number of (design, objective) events fits under 6δ/(π²τ²), whose sum over τ is δ. The premise of the bandit schedules (a region "
         "rebuilt in round t averages t samples) is a run-level obligation on the real PaVeBa / Auer steps; the structural "
         "clause feeds a correlated symbolic covariance (half-widths = scale × marginal std). A negative "
         "control (contraction 64) must be refuted; refutations are confirmed numerically with exact tails over the horizon.",
    note="trusted: Gaussianity of sample means / GP posteriors, tail bounds, Σ τ⁻² = π²/6, exp/ln algebra and Taylor lower "
         "bounds; m = 2..3 (quick) / 2..6 (thorough; PaVeBaPartialGP ellipsoid 2..4); VOGP_AD's β and empirical-β Auer outside; " + REAL,
    technique="program extraction by symbolic execution + SMT (QF_NRA) proof obligations on tail bounds",
    design_ref="DESIGN.md §3 C04"),
}

_WIP = "check not built yet (work in progress; will be claimed once its harness exists)"
NOT_APPLICABLE = {f"C{n:02d}": _WIP for n in range(1, 21) if f"C{n:02d}" not in CHECKS}
NOT_APPLICABLE["C15"] = ("every quantity the property constrains is computed inside torch/gpytorch/botorch compiled "
                         "binary64 kernels (Cholesky solves, LazyTensor algebra, L-BFGS); symbolic scalars cannot flow "
                         "through tensors and a symbolic Cholesky with an exp kernel is outside QF_NRA — see DESIGN.md §4")
