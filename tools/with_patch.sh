#!/bin/sh
# tools/with_patch.sh <patch.diff> <command...>
# Runs <command> with VERIF_REPO pointing at a scratch copy of /repo's working tree with the patch
# applied (the copy lives under /var/tmp and is removed afterwards). Exit code = the command's.
set -e
P=$(realpath "$1"); shift
D=$(mktemp -d /var/tmp/vopy_mut.XXXXXX)
trap 'rm -rf "$D"' EXIT
mkdir -p "$D/repo"
rsync -a --exclude .git --exclude docs --exclude examples --exclude '__pycache__' /repo/ "$D/repo/"
(cd "$D/repo" && patch -p1 -s < "$P")
set +e
VERIF_REPO="$D/repo" "$@"
rc=$?
exit $rc
