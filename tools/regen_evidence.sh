#!/bin/sh
# tools/regen_evidence.sh [tier] : run every registered check on /repo itself, rewrite evidence/*.json, validate them
cd "$(dirname "$0")/.."
TIER=${1:-quick}
rc=0
for c in $(python3 -c "import json;print(' '.join(x['property_id'] for x in json.load(open('MANIFEST.json'))['checks']))"); do
  s=$(date +%s)
  ./check $c $TIER > /var/tmp/regen_$c.log 2>&1; e=$?
  echo "$c exit=$e wall=$(( $(date +%s) - s ))s $(tail -1 /var/tmp/regen_$c.log | cut -c1-120)"
  [ $e -ne 0 ] && rc=1
done
python3-vt - <<'PY'
import json, jsonschema, glob
sch = json.load(open('/root/.vp/EVIDENCE.schema.json'))
for f in sorted(glob.glob('evidence/*.json')):
    jsonschema.validate(json.load(open(f)), sch)
jsonschema.validate(json.load(open('MANIFEST.json')), json.load(open('/root/.vp/MANIFEST.schema.json')))
print('evidence and manifest validate')
PY
exit $rc
