#!/bin/sh
# tools/vet_seed.sh <id> : confirm a seeded change in a scratch copy of /repo (removed afterwards):
#   demo passes on the unchanged tree, fails with the change, and the unedited test suite still passes.
ID="$1"; S=/verif/seeded/$ID
D=$(mktemp -d /var/tmp/vet_$ID.XXXXXX); trap 'rm -rf "$D"' EXIT
rsync -a --exclude .git --exclude docs --exclude examples --exclude '__pycache__' /repo/ "$D/repo/"
cd "$D/repo"
cp "$S"/demo*.py ./demo_vet.py
PYTHONPATH="$D/repo" OMP_NUM_THREADS=2 /venv/bin/python demo_vet.py > "$D/demo_orig.log" 2>&1; E0=$?
patch -p1 -s < "$S/patch.diff" || { echo "patch failed"; exit 2; }
PYTHONPATH="$D/repo" OMP_NUM_THREADS=2 /venv/bin/python demo_vet.py > "$D/demo_mut.log" 2>&1; E1=$?
PYTHONPATH="$D/repo" OMP_NUM_THREADS=4 /venv/bin/python -m pytest -q -p no:cacheprovider --timeout=900 > "$D/suite.log" 2>&1; ES=$?
SUM=$(tail -1 "$D/suite.log")
echo "$ID demo_on_original_exit=$E0 demo_on_changed_exit=$E1 suite_exit=$ES suite='$SUM'"
tail -3 "$D/demo_mut.log" | cut -c1-300
