"""checks.trans — one round of every PAC algorithm from an arbitrary state versus the reference
transition (serves C02: elimination; C03: entering P / U; C11: pessimistic set)."""
from __future__ import annotations

import itertools
import time
from fractions import Fraction

import numpy as np
import z3

from symx import lp, sym
from symx.arr import NpProxy, symarray
from symx.explore import Explorer, Inconclusive, model_value
from symx.harness import Wz, cone_set, dotz, frac_json, from_frac_json, make_order, patched, zand, zor, zs
from symx.sym import HarnessError, Sym

from checks import algo as A
from checks.c19 import _alpha_for

DELTA = Fraction(1, 50)   # margin requested from realised counterexamples


def _phases(cls_name, a):
    a.discarding()
    if cls_name in A.PAVEBA:
        a.pareto_updating()
        a.useful_updating()
    else:
        a.epsiloncovering()


def _keys(cls_name, a, alpha, eps, n):
    if cls_name in A.PAVEBA:
        return {"zero": A.slack_key(0, n), "eps": A.slack_key(np.asarray(alpha, dtype=float).flatten() * eps, n)}
    if cls_name == "EpsilonPAL":
        return {"eps": A.slack_key(eps, n)}
    return {"eps": A.slack_key(np.asarray(a.u_star, dtype=float) * eps, n)}


def _slack_vec(cls_name, a, alpha, eps, n, which):
    if which == "zero":
        return [sym.rv(0)] * n
    if cls_name in A.PAVEBA:
        v = np.asarray(alpha, dtype=float).flatten() * eps
    elif cls_name == "EpsilonPAL":
        v = eps
    else:
        v = np.asarray(a.u_star, dtype=float) * eps
    return A.slack_terms(v, n)


def transition_task(cls_name, ctype, cone, W, N, prop, tier):
    W = np.asarray(W, dtype=float)
    K, m = W.shape
    if cls_name == "EpsilonPAL" and cone != f"orthant{m}":
        raise HarnessError("ε-PAL is defined for the componentwise order only")
    alpha = _alpha_for(W)
    mod = A.amod(cls_name)
    rtype = A.region_type(cls_name, ctype)
    kind = "paveba" if cls_name in A.PAVEBA else "pess"
    ex = Explorer(f"{prop}:{cls_name}[{rtype[5:9]},{cone},N={N}]", query_timeout_ms=60000, max_paths=400000)
    ex.stop_after_candidates = 3
    state = {}
    nslack = m if rtype == "hyperrectangle" else K

    def body(ctx):
        S, P, U = state["pre"]
        eps = ctx.real("eps")
        ctx.assume(eps > 0)
        a = A.build(cls_name, N, m, W, alpha, eps, ctype)
        if cls_name == "VOGP_AD":
            # arbitrary mid-run tree: N leaves (children of refined root), depths symbolic via flags
            while a.design_space.cardinality < N:
                a.design_space.refine_design(a.design_space.cardinality - 1 if a.design_space.cardinality > 1 else 0)
            depths = state["depths"]
            a.design_space.point_depths = list(depths)
            a.enable_epsilon_covering = state["latch"]
        regs = A.sym_regions(ctx, a, N, m, rtype)
        T = A.Tables(ctx, regs, m, K, rtype)
        a.S, a.P = set(S), set(P)
        if kind == "paveba":
            a.U = set(U)
        if prop != "C11":
            with patched((mod, {**T.patches(), "np": NpProxy()})):
                _phases(cls_name, a)
        S2, P2 = set(a.S), set(a.P)
        U2 = set(a.U) if kind == "paveba" else set()
        keys = _keys(cls_name, a, alpha, eps, nslack)
        if kind == "paveba":
            ref = A.ref_paveba(T, N, S, P, U, keys["zero"], keys["eps"])
        else:
            gate = None
            if cls_name == "VOGP_AD":
                maxd = a.max_discretization_depth
                dp = a.design_space.point_depths
                if not state["latch"]:
                    gate = lambda S1: zand([z3.Or(z3.Not(S1[i]), z3.BoolVal(dp[i] == maxd)) for i in range(N)])  # noqa
            ref = A.ref_pess(T, N, S, P, keys["eps"], gate)
        ctx.witness(f"|S'|={len(S2)},|P'|={len(P2)}")
        B = z3.BoolVal
        claims = {}
        if prop == "C02":
            claims["left S without entering P ⇔ region certificate"] = zand(
                [B(i in S and i not in S2 and i not in P2) == ref["disc"][i] for i in range(N)])
            claims["S' ⊆ S"] = B(S2 <= S)
        elif prop == "C03":
            claims["entered P ⇔ nothing active can ε-cover it"] = zand(
                [B(i not in P and i in P2) == ref["new"][i] for i in range(N)])
            claims["members never leave P; S∩P = ∅"] = B(P <= P2 and not (S2 & P2))
            if kind == "paveba":
                claims["U' = members of P that can still ε-cover a remaining candidate"] = zand(
                    [B(i in U2) == ref["U2"][i] for i in range(N)])
        elif prop == "C11":
            # pessimistic set = active designs that no other active design pessimistically dominates
            with patched((mod, {**T.patches(), "np": NpProxy()})):
                a.S, a.P = set(S), set(P)
                ps = a.compute_pessimistic_set()
            claims["pessimistic set = {i active : no active j≠i with PD(R_j,R_i)}"] = zand(
                [B(i in ps) == ref["pess"][i] for i in range(N)])
        for name, cl in claims.items():
            mdl = ctx.prove(name, cl)
            if mdl is not None:
                _realise(ex, ctx, name, cl, T, regs, cls_name, ctype, cone, W, alpha, eps, a, N, state, prop, rtype, nslack)
                return
        ctx.sample({"cls": cls_name, "pre": [sorted(S), sorted(P), sorted(U)], "post": [sorted(S2), sorted(P2), sorted(U2)],
                    "predicate_calls": len(T.calls)})

    pres = A.pre_states(N, kind, tier)
    for pre in pres:
        state["pre"] = pre
        if cls_name == "VOGP_AD":
            for latch in (False, True):
                for depths in itertools.product((2, 3), repeat=N):  # max depth of the stub problem is 3
                    if latch and any(depths[i] != 3 for i in pre[0]):
                        continue  # latch set ⇒ every candidate at max depth (C18 invariant)
                    if any(depths[i] != 3 for i in pre[1]):
                        continue  # members of P are at max depth (C18 invariant)
                    state["latch"], state["depths"] = latch, depths
                    ex.run(body)
        else:
            ex.run(body)
    ex.finalize(replay)
    if any(v.get("reproduced") for v in ex.violations):
        ex.violations = [v for v in ex.violations if v.get("reproduced")]
        # refuting tables that could not be realised are irrelevant once a reproducing counterexample exists
        ex.inconclusive = [i for i in ex.inconclusive if "refuting" not in i and "realisation" not in i]
    elif getattr(ex, "unrealised_cheap", 0):
        ex.inconclusive.append(f"{ex.unrealised_cheap} refuting tables had no realisation by linear certificates (not examined further)")
    r = ex.result()
    r["config"] = {"cls": cls_name, "region": rtype, "cone": cone, "N": N, "pre_states": len(pres)}
    return r


def _realise(ex, ctx, name, claim, T, regs, cls_name, ctype, cone, W, alpha, eps, a, N, state, prop, rtype, nslack):
    """stage 2: concrete regions whose exact geometry yields a table violating the claim"""
    K, m = W.shape
    ex.realise_attempts = getattr(ex, "realise_attempts", 0) + 1
    # the linear-certificate attempt is cheap (LRA): it is tried on up to 60 refuting tables; the bilinear Farkas / exact
    # queries only on the first 4 (refuting tables are often geometrically impossible, e.g. 'covered with slack ε but not
    # with slack 0', and the realisable ones may come later in the DFS order)
    cheap_only = ex.realise_attempts > 4
    spent = getattr(ex, "realise_spent", 0.0)
    if ex.realise_attempts > 60 or spent > REALISE_WALL_S or (getattr(ex, "n_candidates", 0) >= 2 and spent > REALISE_WALL_S / 4):
        ex.stop_after_candidates = 0   # enough refuting tables examined: stop exploring this harness
        if not getattr(ex, "n_candidates", 0):
            ex.inconclusive.append("realisation budget exhausted without a realised counterexample")
        return
    t_real = time.time()
    try:
        return _realise_inner(ex, ctx, name, claim, T, regs, cls_name, ctype, cone, W, alpha, eps, a, N, state, prop, rtype, nslack,
                              cheap_only)
    finally:
        ex.realise_spent = spent + time.time() - t_real


def _realise_inner(ex, ctx, name, claim, T, regs, cls_name, ctype, cone, W, alpha, eps, a, N, state, prop, rtype, nslack, cheap_only):
    K, m = W.shape
    def build_defs():
        defs, exact = [], True
        for (kind, i, j, key), v in list(T.vars.items()):
            if kind == "PD":
                if rtype != "hyperrectangle":
                    continue
                defs.append(z3.Implies(v, A.rect_pd_def(ctx, W, regs[i], regs[j], True)))
                defs.append(z3.Implies(z3.Not(v), A.rect_pd_def(ctx, W, regs[i], regs[j], False)))
                continue
            s = _key_terms(cls_name, a, alpha, eps, nslack, key)
            if s is None:
                exact = False
                continue
            if rtype == "hyperrectangle":
                if len(s) != m:
                    exact = False
                    continue
                if kind == "DOM":
                    defs.append(z3.Implies(v, A.rect_dom_def(W, regs[i], regs[j], s, True)))
                    defs.append(z3.Implies(z3.Not(v), A.rect_dom_def(W, regs[i], regs[j], s, False)))
                else:
                    defs.append(z3.Implies(v, A.rect_cov_def(ctx, W, regs[i], regs[j], s, True)))
                    defs.append(z3.Implies(z3.Not(v), A.rect_cov_def(ctx, W, regs[i], regs[j], s, False)))
            else:
                if kind == "DOM":
                    defs.append(z3.Implies(v, A.sphere_dom_def(W, regs[i], regs[j], s, True)))
                    defs.append(z3.Implies(z3.Not(v), A.sphere_dom_def(W, regs[i], regs[j], s, False)))
                else:
                    defs.append(z3.Implies(v, A.sphere_cov_def(ctx, W, regs[i], regs[j], s, True)))
                    defs.append(z3.Implies(z3.Not(v), A.sphere_cov_def(ctx, W, regs[i], regs[j], s, False)))
                    if K > 1:
                        exact = False
        return defs, exact
    defs, exact = build_defs()
    bounds = [eps.e >= Fraction(1, 16), eps.e <= 2]
    for r in regs:
        if rtype == "hyperrectangle":
            for lo, up in zip(zs(r.lower), zs(r.upper)):
                bounds += [lo >= -8, up <= 8, up - lo >= Fraction(1, 8)]
        else:
            bounds += [c >= -8 for c in zs(r.center)] + [c <= 8 for c in zs(r.center)] + \
                      [sym.to_z3(r.alpha) >= Fraction(1, 8), sym.to_z3(r.alpha) <= 4]
    mdl = None
    for linear in ((True,) if cheap_only else (True, False)):   # linear sufficient certificates first (LRA), then Farkas
        A.LINEAR = linear
        try:
            defs, exact = build_defs()
            mdl = ctx.satisfiable([z3.Not(claim)] + defs + bounds, timeout_ms=45000)
        except Inconclusive:
            mdl = None
            if not linear:
                ex.inconclusive.append(f"realisation query unknown for a table refuting '{name}'")
                return
        finally:
            A.LINEAR = False
        if mdl is not None:
            break
    if mdl is None and cheap_only:
        ex.unrealised_cheap = getattr(ex, "unrealised_cheap", 0) + 1
        return
    if mdl is None:
        # no robust realisation: decide with the exact (iff) definitions whether the table is realisable at all
        if exact:
            A.EXACT = True
            try:
                defs0, _ = build_defs()
                m0 = ctx.satisfiable([z3.Not(claim)] + defs0, timeout_ms=45000)
            except Inconclusive:
                m0 = "unknown"
            finally:
                A.EXACT = False
            if m0 is None:
                ex.notes["unrealisable_tables(discarded: no geometry yields them)"] = \
                    ex.notes.get("unrealisable_tables(discarded: no geometry yields them)", 0) + 1
                ex.realise_attempts -= 1
                return
            if m0 != "unknown" and rtype == "hyperrectangle" and np.all(np.isin(W, (0.0, 1.0, -1.0))):
                # realisable on a predicate boundary only (e.g. two rectangles that pessimistically dominate each other).
                # For 0/±1 cone matrices and dyadic corners the real rectangle code is exact at ties: ask for a model on the
                # 1/8 lattice and replay it with the tie-exact pessimistic oracle.
                A.EXACT = True
                try:
                    defs0, _ = build_defs()
                    lat = []
                    for r in regs:
                        for e in zs(r.lower) + zs(r.upper):
                            ctx.counter += 1
                            k_ = z3.Int(f"lat!{ctx.counter}")
                            lat += [e * 8 == z3.ToReal(k_), k_ >= -64, k_ <= 64]
                    m1 = ctx.satisfiable([z3.Not(claim)] + defs0 + lat + [eps.e >= Fraction(1, 16), eps.e <= 2], timeout_ms=45000)
                except Inconclusive:
                    m1 = None
                finally:
                    A.EXACT = False
                if m1 is not None:
                    mv = lambda e: model_value(m1, e)  # noqa
                    rj = [{"lower": frac_json([mv(e) for e in zs(r.lower)]), "upper": frac_json([mv(e) for e in zs(r.upper)])} for r in regs]
                    S, P, U = state["pre"]
                    ex.candidate(name, {"kind": "transition", "prop": prop, "cls": cls_name, "ctype": ctype, "cone": cone, "W": W.tolist(),
                                        "N": N, "pre": [sorted(S), sorted(P), sorted(U)], "eps": frac_json(mv(eps.e)), "regions": rj,
                                        "latch": state.get("latch"), "depths": list(state.get("depths") or []), "claim": name,
                                        "boundary": True},
                                 {"cls": cls_name, "region": rtype, "cone": cone, "claim": name, "boundary": True})
                    return
            ex.inconclusive.append(f"table refuting '{name}' is realisable only on a predicate boundary (or the exact query "
                                   f"was undecided): not replayable with a numerical solver")
        else:
            ex.inconclusive.append(f"table refuting '{name}' could not be realised with the (sufficient-only) definitions")
        return
    mv = lambda e: model_value(mdl, e)  # noqa
    if rtype == "hyperrectangle":
        rj = [{"lower": frac_json([mv(e) for e in zs(r.lower)]), "upper": frac_json([mv(e) for e in zs(r.upper)])} for r in regs]
    else:
        rj = [{"center": frac_json([mv(e) for e in zs(r.center)]), "alpha": frac_json(mv(sym.to_z3(r.alpha)))} for r in regs]
    S, P, U = state["pre"]
    ex.candidate(name, {"kind": "transition", "prop": prop, "cls": cls_name, "ctype": ctype, "cone": cone, "W": W.tolist(),
                        "N": N, "pre": [sorted(S), sorted(P), sorted(U)], "eps": frac_json(mv(eps.e)), "regions": rj,
                        "latch": state.get("latch"), "depths": list(state.get("depths") or []), "claim": name},
                 {"cls": cls_name, "region": rtype, "cone": cone, "claim": name})


def _parse(k):
    return k


def _key_terms(cls_name, a, alpha, eps, n, key):
    for which in ("zero", "eps"):
        if which == "zero" and cls_name not in A.PAVEBA:
            continue
        terms = _slack_vec(cls_name, a, alpha, eps, n, which)
        if tuple(str(z3.simplify(t)) for t in terms) == key:
            return terms
    # other slacks (e.g. a mutated call site): try the simple families 0, ±ε·v
    for scale in (0, 1, -1):
        for base in (np.asarray(alpha, dtype=float).flatten(), getattr(a, "u_star", None), np.ones(n)):
            if base is None or len(base) != n:
                continue
            terms = A.slack_terms(np.asarray(base, dtype=float) * eps * scale if scale else np.zeros(n), n)
            if tuple(str(z3.simplify(t)) for t in terms) == key:
                return terms
    return None


# ------------------------------------------------------------------------------------------
def _concrete_predicates(W, rtype, regs, exact_pd=False):
    """independent concrete oracles with a boundary band: return True/False/None (None = near tie);
    exact_pd: the pessimistic comparison of rectangles is decided exactly (ties included) in rational arithmetic"""
    from checks import c09, c10, c11
    K, m = W.shape

    def dom(i, j, s):
        if rtype == "hyperrectangle":
            ex_ = lambda v: [Fraction(float(x)) for x in v]  # noqa
            sure = c09._exact_rect_oracle(W, ex_(regs[i].lower), ex_(regs[i].upper), ex_(regs[j].lower), ex_(regs[j].upper),
                                          [Fraction(float(x)) - Fraction(1, 10**7) for x in s])
            poss = c09._exact_rect_oracle(W, ex_(regs[i].lower), ex_(regs[i].upper), ex_(regs[j].lower), ex_(regs[j].upper),
                                          [Fraction(float(x)) + Fraction(1, 10**7) for x in s])
            return sure if sure == poss else None
        from checks.c09_ell import closed_form
        mg = closed_form(W, np.eye(m), regs[i].center, regs[i].alpha, np.eye(m), regs[j].center, regs[j].alpha, np.asarray(s, float))
        if np.any(np.abs(mg) < 1e-7):
            return None
        return bool(np.all(mg >= 0))

    def cov(i, j, s):
        if rtype == "hyperrectangle":
            ex_ = lambda v: [Fraction(float(x)) for x in v]  # noqa
            args = (W, ex_(regs[i].lower), ex_(regs[i].upper), ex_(regs[j].lower), ex_(regs[j].upper), ex_(s))
            sure = lp.exact_lp_feasible(c10._rect_rows(*args, Fraction(1, 10**7)))
            poss = lp.exact_lp_feasible(c10._rect_rows(*args, -Fraction(1, 10**7)))
            return sure if sure == poss else None
        sure = c10.ell_numeric_oracle(W, np.eye(m), regs[i].center, regs[i].alpha, np.eye(m), regs[j].center, regs[j].alpha,
                                      np.asarray(s, float), 1e-5)
        poss = c10.ell_numeric_oracle(W, np.eye(m), regs[i].center, regs[i].alpha, np.eye(m), regs[j].center, regs[j].alpha,
                                      np.asarray(s, float), -1e-5)
        return sure if sure == poss else None

    def pd(j, i):
        ex_ = lambda v: [Fraction(float(x)) for x in v]  # noqa
        res = []
        for v in itertools.product(*zip(regs[j].lower, regs[j].upper)):
            if exact_pd:
                res.append(c11.exact_point_oracle(W, ex_(v), ex_(regs[i].lower), ex_(regs[i].upper), Fraction(0)))
                continue
            sure = c11.exact_point_oracle(W, ex_(v), ex_(regs[i].lower), ex_(regs[i].upper), Fraction(1, 10**7))
            poss = c11.exact_point_oracle(W, ex_(v), ex_(regs[i].lower), ex_(regs[i].upper), -Fraction(1, 10**7))
            if sure != poss:
                return None
            res.append(sure)
        return all(res)
    return dom, cov, pd


class NearTie(Exception):
    pass


def concrete_reference(cls_name, N, S, P, U, dom, cov, pd, s_zero, s_eps, gate_ok=True):
    def need(v):
        if v is None:
            raise NearTie()
        return v
    if cls_name in A.PAVEBA:
        Aset = S | U
        disc = {i for i in S if any(need(dom(i, j, s_zero)) for j in Aset if j != i)}
        S1 = S - disc
        A1 = S1 | U
        new = {i for i in S1 if not any(need(cov(i, j, s_eps)) for j in A1 if j != i)}
        P2, S2 = P | new, S1 - new
        U2 = {p for p in P2 if any(need(cov(s, p, s_eps)) for s in S2 if s != p)}
        return {"disc": disc, "new": new, "S2": S2, "P2": P2, "U2": U2}
    Wset = S | P
    pess = {i for i in Wset if not any(need(pd(j, i)) for j in Wset if j != i)}
    disc = {i for i in S - pess if any(need(dom(i, j, s_eps)) for j in pess)}
    S1 = S - disc
    W1 = S1 | P
    new = {i for i in S1 if not any(need(cov(i, j, s_eps)) for j in W1 if j != i)} if gate_ok(S1) else set()
    return {"pess": pess, "disc": disc, "new": new, "S2": S1 - new, "P2": P | new, "U2": set()}


def replay(case):
    """real phases with real predicates (real cvxpy) on the concrete regions, versus the reference
    transition evaluated with independent concrete oracles"""
    import vopy.confidence_region as cr
    if case.get("kind") == "auer":
        from checks import auer
        return auer.replay(case)
    cls_name, ctype, N = case["cls"], case["ctype"], case["N"]
    W = np.array(case["W"], dtype=float)
    K, m = W.shape
    alpha = _alpha_for(W)
    eps = float(Fraction(from_frac_json(case["eps"])))
    a = A.build(cls_name, N, m, W, alpha, eps, ctype)
    rtype = A.region_type(cls_name, ctype)
    if cls_name == "VOGP_AD":
        while a.design_space.cardinality < N:
            a.design_space.refine_design(a.design_space.cardinality - 1 if a.design_space.cardinality > 1 else 0)
        a.design_space.point_depths = list(case["depths"])
        a.enable_epsilon_covering = bool(case["latch"])
    regs = []
    F1 = lambda v: np.array([float(Fraction(x)) for x in from_frac_json(v)])  # noqa
    for r in case["regions"]:
        if rtype == "hyperrectangle":
            regs.append(cr.RectangularConfidenceRegion(m, F1(r["lower"]), F1(r["upper"])))
        else:
            regs.append(cr.EllipsoidalConfidenceRegion(m, F1(r["center"]), np.eye(m), float(Fraction(from_frac_json(r["alpha"])))))
    a.design_space.confidence_regions = regs
    S, P, U = (set(x) for x in case["pre"])
    a.S, a.P = set(S), set(P)
    if cls_name in A.PAVEBA:
        a.U = set(U)
    nsl = m if rtype == "hyperrectangle" else K
    try:
        if case["prop"] == "C11":
            ps = a.compute_pessimistic_set()
        else:
            _phases(cls_name, a)
    except Exception as ex:  # noqa
        return {"reproduced": False, "detail": "real phases raised " + repr(ex) + " (reported by C06, not here)"}
    if cls_name in A.PAVEBA:
        s_eps = (np.asarray(alpha).flatten() * eps)
    elif cls_name == "EpsilonPAL":
        s_eps = np.ones(nsl) * eps
    else:
        s_eps = np.asarray(a.u_star) * eps
    if len(s_eps) != nsl:
        return {"reproduced": False, "detail": "slack size differs from the region kind's expectation (C06)"}
    dom, cov, pd = _concrete_predicates(W, rtype, regs, exact_pd=bool(case.get("boundary")))
    gate_ok = lambda S1: True  # noqa
    if cls_name == "VOGP_AD" and not case["latch"]:
        gate_ok = lambda S1: all(case["depths"][i] == a.max_discretization_depth for i in S1)  # noqa
    try:
        ref = concrete_reference(cls_name, N, S, P, U, dom, cov, pd, np.zeros(nsl), s_eps, gate_ok)
    except NearTie:
        return {"reproduced": False, "detail": "a region predicate is within tolerance of its boundary"}
    S2, P2 = set(a.S), set(a.P)
    U2 = set(getattr(a, "U", set()))
    prop = case["prop"]
    if prop == "C02":
        left = {i for i in S if i not in S2 and i not in P2}
        bad = left != ref["disc"] or not S2 <= S
        d = f"left S without entering P: {sorted(left)}; certified by the regions: {sorted(ref['disc'])}"
    elif prop == "C03":
        entered = {i for i in P2 if i not in P}
        bad = entered != ref["new"] or not P <= P2 or (cls_name in A.PAVEBA and U2 != ref["U2"]) or bool(S2 & P2)
        d = f"entered P: {sorted(entered)} (reference {sorted(ref['new'])}); U'={sorted(U2)} (reference {sorted(ref['U2'])})"
    else:
        bad = ps != ref["pess"]
        d = f"pessimistic set {sorted(ps)} (reference {sorted(ref['pess'])})"
    return {"reproduced": bool(bad), "detail": f"{cls_name} from S={sorted(S)},P={sorted(P)},U={sorted(U)}: " + d}


REALISE_WALL_S = 360.0   # wall time per harness spent on realising refuting tables (a refuted obligation never passes: without a
#                          realised counterexample the harness answers inconclusive)
THOROUGH_CONES = ["orthant2", "theta30", "theta60", "theta90", "theta120", "theta150", "rand2d_0", "rand2d_1", "orthant3", "3d_acute",
                  "3d_obtuse", "asym3d", "icecream_K4", "icecream_K6", "rand3d_0", "rand3d_1"]
N4_CONES = ("orthant2", "theta60", "theta120")


def configs(tier, prop):
    """(cls, ctype, cone name) cells"""
    # stage 1 depends on the cone only through its facet count and the slack keys; the thorough tier therefore takes a
    # spread of cones rather than the whole 10°-grid (which made 363 tasks, about 8 h on 16 cores)
    cones2 = ["orthant2", "theta60", "theta120"] if tier == "quick" else THOROUGH_CONES
    out = []
    for cone, W in cone_set(tier, dims=(2,) if tier == "quick" else (2, 3)):
        if cones2 and cone not in cones2:
            continue
        K, m = W.shape
        cells = []
        if prop in ("C02", "C03"):
            cells += [("PaVeBa", None), ("PaVeBaGP", "hyperellipsoid"), ("PaVeBaPartialGP", "hyperellipsoid")]
            if K == m:
                cells += [("PaVeBaGP", "hyperrectangle"), ("PaVeBaPartialGP", "hyperrectangle")]
        cells += [("VOGP", None), ("VOGP_AD", None)]
        if cone.startswith("orthant"):
            cells.append(("EpsilonPAL", None))
        for cls, ct in cells:
            out.append((cls, ct, cone, W))
    return out


def tasks_for(prop, tier, seed):
    ts = []
    for cls, ct, cone, W in configs(tier, prop):
        # N = 4 for the PaVeBa family only (about 90 s per task); VOGP / ε-PAL with four designs took over an hour per task
        N = 4 if (tier != "quick" and cone in N4_CONES and cls in A.PAVEBA) else 3
        if cls == "VOGP_AD":
            N = 3
        if prop == "C11" and cls in A.PAVEBA:
            continue
        ts.append({"id": f"{cls}[{(ct or '')[5:9]},{cone},N={N}]", "fn": "transition_task",
                   "args": {"cls_name": cls, "ctype": ct, "cone": cone, "W": W.tolist(), "N": N, "prop": prop, "tier": tier},
                   "weight": 10 ** (N - 2)})
        if prop != "C11" and cls != "VOGP_AD":
            # the two-design instance as well: refuting tables are realised far more easily there (with three designs
            # most refuting tables are geometrically impossible, e.g. two regions pessimistically dominating each other)
            ts.append({"id": f"{cls}[{(ct or '')[5:9]},{cone},N=2]", "fn": "transition_task",
                       "args": {"cls_name": cls, "ctype": ct, "cone": cone, "W": W.tolist(), "N": 2, "prop": prop, "tier": tier},
                       "weight": 1})
    return ts
