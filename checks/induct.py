"""checks.induct — whole-run guarantees as ONE inductive step of the real phase code from an
arbitrary invariant-satisfying state (serves C01: PaVeBa family + Auer; C05: VOGP, ε-PAL)."""
from __future__ import annotations

import itertools
import math
from fractions import Fraction

import numpy as np
import z3

from symx import sym
from symx.arr import NpProxy, symarray
from symx.explore import Explorer, Inconclusive, model_value
from symx.harness import Wz, cone_set, dotz, frac_json, from_frac_json, patched, zand, zor, zs
from symx.sym import HarnessError, Sym

from checks import algo as A
from checks import trans
from checks.c19 import _alpha_for, exact_alpha

TAU = Fraction(1, 10**6)   # relative tolerance on ε (α, u* are numerical outputs accurate to ~1e-9)


def _states(N, kind):
    """pre-states incl. the discarded class D ('gone'); S non-empty"""
    classes = ("S", "U", "P", "D") if kind == "paveba" else ("S", "P", "D")
    out = []
    for assign in itertools.product(classes, repeat=N):
        if "S" not in assign:
            continue
        S = {i for i, a in enumerate(assign) if a == "S"}
        U = {i for i, a in enumerate(assign) if a == "U"}
        P = {i for i, a in enumerate(assign) if a in ("P", "U")}
        D = {i for i, a in enumerate(assign) if a == "D"}
        out.append((S, P, U, D))
    return out


def induct_task(cls_name, ctype, cone, W, N, prop, tier, base_only=False, rounds=1, weak_slack=False):
    """rounds = 1: one step from every invariant-satisfying state (induction).  base_only: only the
    initial state, `rounds` consecutive rounds with fresh symbolic regions per round and fixed
    truths — every failure here is a reachable history and is realised + replayed."""
    W = np.asarray(W, dtype=float)
    K, m = W.shape
    alpha = _alpha_for(W)
    aflat = np.asarray(alpha, dtype=float).flatten()
    mod = A.amod(cls_name)
    rtype = A.region_type(cls_name, ctype)
    kind = "paveba" if cls_name in A.PAVEBA else "pess"
    Wq = Wz(W)
    nslack = m if rtype == "hyperrectangle" else K
    ex = Explorer(f"{prop}:{'base' if base_only else 'step'}{'(weak slack)' if weak_slack else ''}:{cls_name}[{rtype[5:9]},{cone},N={N}"
                  f"{',rounds=' + str(rounds) if rounds > 1 else ''}]", query_timeout_ms=60000, max_paths=400000)
    ex.stop_after_candidates = 3
    state = {}
    one_tau = sym.rv(1 + TAU)

    def body(ctx):
        S, P, U, D = (set(x) for x in state["pre"])
        eps = ctx.real("eps")
        ctx.assume(eps > 0)
        a = A.build(cls_name, N, m, W, alpha, eps, ctype)
        mu = ctx.reals("mu", N, m)
        muz = zs(mu)
        diff = lambda j, i: [muz[j][k] - muz[i][k] for k in range(m)]  # noqa  μ_j − μ_i
        dom_t = lambda j, i: zand([dotz(r, diff(j, i)) >= 0 for r in Wq])  # noqa  μ_j ≽ μ_i
        if kind == "paveba":
            epsa = [eps.e * sym.rv(Fraction(float(x))) for x in aflat]
            if weak_slack:
                # what the rectangle predicate can guarantee when it is handed ε·α in objective space: facet n is
                # only pushed to ε·(Wα)_n.  Proving J1–J3 with this weaker bound separates the known finding
                # F-C01-rect-slack-in-objective-space from any *other* way of breaking the guarantee.
                wa = W @ aflat
                epsa = [eps.e * sym.rv(Fraction(float(max(x, y)))) for x, y in zip(aflat, wa)]
            gap_ok = lambda j, p: zor([dotz(Wq[n], diff(j, p)) <= epsa[n] * one_tau for n in range(K)])  # noqa
            J1 = lambda S_, P_, D_: zand([zor([dom_t(q, d) for q in (S_ | P_)]) for d in D_])  # noqa
            J2 = lambda P_: zand([gap_ok(j, p) for p in P_ for j in range(N) if j != p])  # noqa
            J3 = lambda S_, P_, U_: zand([gap_ok(k, s) for k in (P_ - U_) for s in S_])  # noqa
            ctx.assume([J1(S, P, D), J2(P), J3(S, P, U)])
        else:
            sv = trans._slack_vec(cls_name, a, alpha, eps, m, "eps")
            covers = lambda y, x: zand([dotz(r, [muz[y][k] + sv[k] * one_tau - muz[x][k] for k in range(m)]) >= 0 for r in Wq])  # noqa
            strictly = lambda q, p: zand([dotz(r, [muz[q][k] - muz[p][k] - sv[k] * one_tau for k in range(m)]) >= 0 for r in Wq])  # noqa
            isolated = lambda x: zand([z3.Not(covers(y, x)) for y in range(N) if y != x])  # noqa
            K1 = lambda S_, P_: zand([z3.Implies(isolated(x), z3.BoolVal(x in S_ | P_)) for x in range(N)])  # noqa
            K2 = lambda P_: zand([z3.Not(strictly(q, p)) for p in P_ for q in P_ if q != p])  # noqa
            K3 = lambda S_, P_: zand([z3.Not(strictly(s, p)) for p in P_ for s in S_])  # noqa
            ctx.assume([K1(S, P), K2(P), K3(S, P)])
        a.S, a.P = set(S), set(P)
        if kind == "paveba":
            a.U = set(U)
        hist = []   # (tables, regions) per round, for the realisation
        for rnd in range(rounds):
            if not a.S:
                break
            S, P = set(a.S), set(a.P)
            U = set(a.U) if kind == "paveba" else set()
            regs = A.sym_regions(ctx, a, N, m, rtype, tag=f"r{rnd}_")
            # hypothesis: the truth of every design in S ∪ P lies in the region displayed for it
            sup = None
            if rtype != "hyperrectangle":
                # ellipsoids of ANY shape enter through their support intervals along the facet normals:
                # [lo_in, hi_in] = w_n·c_i ∓ α_i‖Σ_i^{1/2} w_n‖, hi > lo (non-empty interior).  DOM (per-facet slack) is
                # exactly  ∀n lo_jn − hi_in ≥ −s_n  for any convex region, and μ_i ∈ R_i gives lo_in ≤ w_n·μ_i ≤ hi_in.
                sup = [[(ctx.fresh(f"suplo{i}_{n}"), ctx.fresh(f"suphi{i}_{n}")) for n in range(K)] for i in range(N)]
                for i in range(N):
                    for n in range(K):
                        ctx.assume(sup[i][n][0] < sup[i][n][1])
            for i in S | P:
                if rtype == "hyperrectangle":
                    ctx.assume([regs[i].lower <= mu[i], mu[i] <= regs[i].upper])
                else:
                    for n in range(K):
                        ctx.assume(z3.And(sup[i][n][0] <= dotz(Wq[n], muz[i]), dotz(Wq[n], muz[i]) <= sup[i][n][1]))
            T = A.Tables(ctx, regs, m, K, rtype)
            if rounds > 1:
                base_var = T.var
                T.var = (lambda bv, tag: (lambda kind_, i, j, key=(): bv(kind_, i, j, key + (tag,))))(base_var, f"@{rnd}")
            hist.append((T, regs))
            SP = S | P

            def hook(kindp, i, j, key, val, T=T, regs=regs, sup=sup, SP=SP):
                """summary contract (C09/C10): the predicate's ∀∀ / ¬∃∃ statement instantiated at the truths,
                plus the region-level closed form of DOM (excludes mutual domination of non-degenerate regions)"""
                v = T.var(kindp, i, j, key)
                terms = trans._key_terms(cls_name, a, alpha, eps, nslack, tuple(k for k in key if not k.startswith("@")))
                if terms is None:
                    return
                both = i in SP and j in SP
                if kindp == "DOM":
                    if rtype == "hyperrectangle":
                        d = A.rect_dom_def(W, regs[i], regs[j], terms)
                    else:
                        d = zand([sup[j][n][0] - sup[i][n][1] >= -terms[n] for n in range(K)])
                    ctx.fact(v == d)
                    if val and both:
                        if rtype == "hyperrectangle":
                            ctx.fact(zand([dotz(r, [muz[j][k] + terms[k] - muz[i][k] for k in range(m)]) >= 0 for r in Wq]))
                        else:
                            ctx.fact(zand([dotz(Wq[n], diff(j, i)) >= -terms[n] for n in range(K)]))
                elif kindp == "COV" and not val and both:
                    if rtype == "hyperrectangle":
                        ctx.fact(zor([dotz(r, [muz[j][k] - muz[i][k] - terms[k] for k in range(m)]) < 0 for r in Wq]))
                    else:
                        ctx.fact(zor([dotz(Wq[n], diff(j, i)) < terms[n] for n in range(K)]))
            T.hooks.append(hook)
            with patched((mod, {**T.patches(), "np": NpProxy()})):
                trans._phases(cls_name, a)
            S2, P2 = set(a.S), set(a.P)
            U2 = set(a.U) if kind == "paveba" else set()
            D = D | {i for i in S if i not in S2 and i not in P2}
            D2 = D
            if kind == "paveba":
                claims = {"J1: every eliminated design is dominated by a kept one": J1(S2, P2, D2),
                          "J2: every member of P has gap ≤ ε": J2(P2),
                          "J3: a dropped Pareto design cannot ε-exceed a remaining candidate": J3(S2, P2, U2)}
                if not S2:
                    claims["S=∅: P is ε-accurate (consequent of C01)"] = z3.And(
                        zand([zor([dom_t(q, d) for q in P2]) for d in range(N) if d not in P2]), J2(P2))
            else:
                claims = {"K1: every ε-isolated optimum is still in S ∪ P": K1(S2, P2),
                          "K2: no member of P is ε-dominated by another member": K2(P2),
                          "K3: no candidate ε-dominates a member of P": K3(S2, P2)}
                if not S2:
                    claims["S=∅: consequent of C05"] = z3.And(
                        zand([z3.Implies(isolated(x), z3.BoolVal(x in P2)) for x in range(N)]), K2(P2))
            strong = {}
            if kind == "paveba":   # a violation with a visible margin (5 %) for the replay
                strong["J2: every member of P has gap ≤ ε"] = zor(
                    [zand([dotz(Wq[n], diff(j, p)) >= epsa[n] * sym.rv(Fraction(21, 20)) for n in range(K)])
                     for p in P2 for j in range(N) if j != p])
            else:
                s105 = [x * sym.rv(Fraction(21, 20)) for x in sv]
                strong["K2: no member of P is ε-dominated by another member"] = zor(
                    [zand([dotz(r, [muz[q][k] - muz[p][k] - s105[k] for k in range(m)]) >= 0 for r in Wq])
                     for p in P2 for q in P2 if q != p])
            for name, cl in claims.items():
                if base_only and rounds > 1 and name[:2] in ("J3", "K3"):
                    # history mode decides the guarantee itself (J1/J2 resp. K1/K2 and the consequent) on reachable
                    # histories; a breach of the auxiliary invariant is followed further instead of being reported (its
                    # replay could not reproduce anything: the guarantee fails only a round later, if at all)
                    continue
                mdl = ctx.prove(name, cl)
                if mdl is not None:
                    initial = len(state["pre"][0]) == N
                    _candidate(ex, ctx, name, z3.Not(strong[name]) if name in strong else cl, hist, mu, cls_name, ctype, cone,
                               W, alpha, eps, a, N, state, prop, rtype, nslack, base_only or initial)
                    return
        ctx.witness(f"|S'|={len(a.S)},|P'|={len(a.P)}")
        ctx.sample({"cls": cls_name, "pre": [sorted(x) for x in state["pre"]], "post": [sorted(a.S), sorted(a.P)], "rounds": len(hist)})

    sts = _states(N, kind)
    if base_only:
        sts = [s for s in sts if len(s[0]) == N]   # the initial state: S = all designs
    for pre in sts:
        state["pre"] = pre
        ex.run(body)
    ex.finalize(replay)
    if any(v.get("reproduced") for v in ex.violations):
        ex.violations = [v for v in ex.violations if v.get("reproduced")]
    r = ex.result()
    r["config"] = {"cls": cls_name, "region": rtype, "cone": cone, "N": N, "pre_states": len(sts), "rounds": rounds,
                   "max_Walpha_over_alpha": float(np.max((W @ aflat) / aflat)) if K == m else None}
    return r


def _candidate(ex, ctx, name, claim, hist, mu, cls_name, ctype, cone, W, alpha, eps, a, N, state, prop, rtype, nslack,
               base_only):
    """a failed step: concrete regions + truths realising it (exact, robust definitions of every
    decided table entry).  Only failures from the initial state are reachable histories by
    construction; others are reported as inconclusive (invariant too weak or unreachable)."""
    K, m = W.shape
    if not base_only:
        ex.inconclusive.append(f"inductive step for '{name}' fails from pre-state {state['pre']} (not the initial state): "
                               f"either the invariant is too weak or a defect needs a longer history")
        return
    def build_defs():
        defs = []
        for T, regs in hist:
          for (kind, i, j, key), v in list(T.vars.items()):
            s = trans._key_terms(cls_name, a, alpha, eps, nslack, tuple(k for k in key if not k.startswith("@")))
            if s is None or kind == "PD":
                if kind == "PD" and rtype == "hyperrectangle":
                    defs.append(z3.Implies(v, A.rect_pd_def(ctx, W, regs[i], regs[j], True)))
                    defs.append(z3.Implies(z3.Not(v), A.rect_pd_def(ctx, W, regs[i], regs[j], False)))
                continue
            if rtype == "hyperrectangle":
                if kind == "DOM":
                    defs += [z3.Implies(v, A.rect_dom_def(W, regs[i], regs[j], s, True)),
                             z3.Implies(z3.Not(v), A.rect_dom_def(W, regs[i], regs[j], s, False))]
                else:
                    defs += [z3.Implies(v, A.rect_cov_def(ctx, W, regs[i], regs[j], s, True)),
                             z3.Implies(z3.Not(v), A.rect_cov_def(ctx, W, regs[i], regs[j], s, False))]
            else:
                if kind == "DOM":
                    defs += [z3.Implies(v, A.sphere_dom_def(W, regs[i], regs[j], s, True)),
                             z3.Implies(z3.Not(v), A.sphere_dom_def(W, regs[i], regs[j], s, False))]
                else:
                    defs += [z3.Implies(v, A.sphere_cov_def(ctx, W, regs[i], regs[j], s, True)),
                             z3.Implies(z3.Not(v), A.sphere_cov_def(ctx, W, regs[i], regs[j], s, False))]
        return defs
    bounds = [eps.e >= Fraction(1, 16), eps.e <= 2]
    sphere_in, cube_in = [], []
    muz_ = zs(mu)
    for T_, regs_ in hist:
        for i, r in enumerate(regs_):
            if rtype == "hyperrectangle":
                for lo, up in zip(zs(r.lower), zs(r.upper)):
                    bounds += [lo >= -8, up <= 8, up - lo >= Fraction(1, 8)]
            else:
                bounds += [c >= -8 for c in zs(r.center)] + [c <= 8 for c in zs(r.center)] + \
                          [sym.to_z3(r.alpha) >= Fraction(1, 8), sym.to_z3(r.alpha) <= 4]
                # truths inside the realised spheres (all designs: harmless for inactive ones)
                d_ = [muz_[i][k] - zs(r.center)[k] for k in range(m)]
                sphere_in.append(sum((x * x for x in d_), sym.rv(0)) <= sym.to_z3(r.alpha) * sym.to_z3(r.alpha))
                q_ = sym.rv(Fraction(int(1000 / math.sqrt(m)) - 5, 1000))   # inscribed cube: linear, sufficient
                cube_in.append(zand([z3.And(x <= q_ * sym.to_z3(r.alpha), -x <= q_ * sym.to_z3(r.alpha)) for x in d_]))
    mdl = None
    for linear in (True, False):   # linear sufficient certificates first (LRA), then Farkas certificates
        A.LINEAR = linear
        try:
            defs = build_defs()
            mdl = ctx.satisfiable([z3.Not(claim)] + defs + bounds + (cube_in if linear else sphere_in), timeout_ms=60000)
        except Inconclusive:
            mdl = None
            if not linear:
                ex.inconclusive.append(f"realisation query unknown for the failed step '{name}'")
                return
        finally:
            A.LINEAR = False
        if mdl is not None:
            break
    if mdl is None:
        ex.inconclusive.append(f"failed step '{name}' from the initial state could not be realised with robust margins")
        return
    mv = lambda e: model_value(mdl, e)  # noqa
    rounds_json = []
    for T_, regs_ in hist:
        if rtype == "hyperrectangle":
            rounds_json.append([{"lower": frac_json([mv(e) for e in zs(r.lower)]), "upper": frac_json([mv(e) for e in zs(r.upper)])}
                                for r in regs_])
        else:
            rounds_json.append([{"center": frac_json([mv(e) for e in zs(r.center)]), "alpha": frac_json(mv(sym.to_z3(r.alpha)))}
                                for r in regs_])
    aflat = np.asarray(alpha, dtype=float).flatten()
    ex.candidate(name, {"kind": "induct", "prop": prop, "cls": cls_name, "ctype": ctype, "cone": cone, "W": W.tolist(), "N": N,
                        "eps": frac_json(mv(eps.e)), "rounds": rounds_json,
                        "mu": frac_json([[mv(e) for e in row] for row in zs(mu)]), "claim": name},
                 {"cls": cls_name, "region": rtype, "cone": cone, "claim": name[:2] + ("w" if "(weak slack)" in ex.name else ""),
                  "max_Walpha_over_alpha": float(np.max((W @ aflat) / aflat)) if K == m else None})


def replay(case):
    """one real round (real predicates, real cvxpy) from the initial state on the concrete regions;
    the truths lie in the regions; afterwards the guarantee is evaluated with exact oracles"""
    import vopy.confidence_region as cr
    if case.get("kind") == "auer_induct":
        return _replay_auer(case)
    if case.get("kind") == "auer_hist":
        return _replay_auer_hist(case)
    cls_name, ctype, N = case["cls"], case["ctype"], case["N"]
    W = np.array(case["W"], dtype=float)
    K, m = W.shape
    alpha = _alpha_for(W)
    aex = exact_alpha(W)
    eps = float(Fraction(from_frac_json(case["eps"])))
    a = A.build(cls_name, N, m, W, alpha, eps, ctype)
    rtype = A.region_type(cls_name, ctype)
    F1 = lambda v: np.array([float(Fraction(x)) for x in from_frac_json(v)])  # noqa
    mu = np.array([[float(Fraction(x)) for x in row] for row in from_frac_json(case["mu"])])
    for rnd, rjs in enumerate(case["rounds"]):
        if not a.S:
            break
        active = set(a.S) | set(a.P)
        regs = []
        for i, r in enumerate(rjs):
            if rtype == "hyperrectangle":
                R = cr.RectangularConfidenceRegion(m, F1(r["lower"]), F1(r["upper"]))
                inside = np.all(R.lower - 1e-12 <= mu[i]) and np.all(mu[i] <= R.upper + 1e-12)
            else:
                R = cr.EllipsoidalConfidenceRegion(m, F1(r["center"]), np.eye(m), float(Fraction(from_frac_json(r["alpha"]))))
                inside = np.linalg.norm(mu[i] - R.center) <= R.alpha + 1e-12
            if i in active and not inside:
                return {"reproduced": False, "detail": "model's truth not inside its region after float conversion"}
            regs.append(R)
        a.design_space.confidence_regions = regs
        try:
            trans._phases(cls_name, a)
        except Exception as ex:  # noqa
            return {"reproduced": False, "detail": "real phases raised " + repr(ex) + " (C06)"}
    P2 = set(a.P)
    if case["prop"] == "C01":
        gaps = {}
        for p in P2:
            g = 0.0
            for j in range(N):
                if j != p:
                    g = max(g, min(max(0.0, float(W[n] @ (mu[j] - mu[p]))) / aex[n] for n in range(K)))
            gaps[p] = g
        bad = {p: g for p, g in gaps.items() if g > eps * (1 + 1e-3)}
        return {"reproduced": bool(bad), "gap_over_eps": max([g / eps for g in gaps.values()], default=0.0),
                "detail": f"{cls_name}({rtype}, cone {case['cone']}), ε={eps}: after {len(case['rounds'])} round(s) from the initial state with every "
                          f"truth inside its region, P={sorted(P2)} (members never leave P) has gaps {gaps} > ε"}
    # C05: K2 / K1 on the post-state
    u = np.asarray(a.u_star, dtype=float) * eps if cls_name != "EpsilonPAL" else np.ones(m) * eps
    dom = lambda x: np.all(W @ x >= 1e-9)  # noqa
    bad2 = [(p, q) for p in P2 for q in P2 if p != q and np.all(W @ (mu[q] - mu[p] - u * (1 + 1e-3)) >= 0)]
    S2 = set(a.S)
    iso = [x for x in range(N) if all(not np.all(W @ (mu[y] + u * (1 - 1e-3) - mu[x]) >= 0) for y in range(N) if y != x)]
    lost = [x for x in iso if x not in S2 | P2]
    return {"reproduced": bool(bad2 or lost), "detail": f"{cls_name}: P={sorted(P2)}, ε-dominated pairs in P: {bad2}; "
            f"ε-isolated optima lost: {lost}"}


# -- Auer ----------------------------------------------------------------------------------------
def auer_induct_task(N, m, widths, tier, base_only=False):
    mod = A.amod("Auer")
    ex = Explorer(f"C01:{'base' if base_only else 'step'}:Auer[N={N},m={m},widths={widths}]", query_timeout_ms=60000,
                  max_paths=400000)
    ex.stop_after_candidates = 3
    state = {}

    def body(ctx):
        S, P, U, D = state["pre"]
        eps = ctx.real("eps")
        ctx.assume(eps > 0)
        a = A.build("Auer", N, m, None, None, eps, use_empirical_beta=(widths != "homogeneous"))
        c = ctx.reals("c", N, m)
        mu = ctx.reals("mu", N, m)
        if widths == "homogeneous":
            b0 = ctx.real("beta")
            beta = symarray([[b0] * m for _ in range(N)])
        elif widths == "per_design":
            bb = ctx.reals("beta", N)
            beta = symarray([[bb.view(np.ndarray)[i]] * m for i in range(N)])
        else:
            beta = ctx.reals("beta", N, m)
        ctx.assume(beta > 0)
        cz, muz, bz = zs(c), zs(mu), zs(beta)
        for i in S:   # truth inside the displayed region of every active design
            ctx.assume(zand([z3.And(muz[i][k] >= cz[i][k] - bz[i][k], muz[i][k] <= cz[i][k] + bz[i][k]) for k in range(m)]))
        dom_t = lambda q, d: zand([muz[q][k] >= muz[d][k] for k in range(m)])  # noqa
        ok = lambda j, p: zor([muz[j][k] <= muz[p][k] + eps.e for k in range(m)])  # noqa
        J1 = lambda S_, P_, D_: zand([zor([dom_t(q, d) for q in (S_ | P_)]) for d in D_])  # noqa
        J2 = lambda P_: zand([ok(j, p) for p in P_ for j in range(N) if j != p])  # noqa
        J3 = lambda S_, P_: zand([ok(p, s) for p in P_ for s in S_])  # noqa
        ctx.assume([J1(S, P, D), J2(P), J3(S, P)])
        import vopy.confidence_region as cr
        regs = []
        for i in range(N):
            r = cr.RectangularConfidenceRegion.__new__(cr.RectangularConfidenceRegion)
            r.intersect_iteratively = False
            r.lower, r.upper = c[i] - beta[i], c[i] + beta[i]
            regs.append(r)
        a.design_space.confidence_regions = regs
        a.S, a.P = set(S), set(P)
        a.beta_t = symarray([list(beta.view(np.ndarray)[i]) for i in list(a.S)])
        with patched((mod, {"np": NpProxy()})):
            a.discarding()
            a.pareto_updating()
        S2, P2 = set(a.S), set(a.P)
        D2 = D | {i for i in S if i not in S2 and i not in P2}
        ctx.witness(f"|S'|={len(S2)},|P'|={len(P2)}")
        claims = {"J1: every eliminated design is dominated by a kept one": J1(S2, P2, D2),
                  "J2: no design exceeds a member of P by ε in every objective": J2(P2),
                  "J3: a member of P cannot exceed a remaining candidate by ε in every objective": J3(S2, P2)}
        for name, cl in claims.items():
            mdl = ctx.prove(name, cl)
            if mdl is not None:
                if not base_only:
                    ex.inconclusive.append(f"inductive step for '{name}' fails from pre-state {state['pre']}")
                    return
                mv = lambda e: model_value(mdl, e)  # noqa
                ex.candidate(name, {"kind": "auer_induct", "N": N, "m": m, "eps": frac_json(mv(eps.e)), "widths": widths,
                                    "c": frac_json([[mv(e) for e in r_] for r_ in cz]),
                                    "beta": frac_json([[mv(e) for e in r_] for r_ in bz]),
                                    "mu": frac_json([[mv(e) for e in r_] for r_ in muz]), "claim": name},
                             {"cls": "Auer", "widths": widths, "claim": name[:2]})
                return
        ctx.sample({"pre": [sorted(S), sorted(P), sorted(D)], "post": [sorted(S2), sorted(P2)], "widths": widths})

    sts = [(s[0], s[1], set(), s[3]) for s in _states(N, "pess")]
    if base_only:
        sts = [s for s in sts if len(s[0]) == N]
    for pre in sts:
        state["pre"] = pre
        ex.run(body)
    ex.finalize(replay)
    r = ex.result()
    r["config"] = {"cls": "Auer", "N": N, "m": m, "widths": widths, "pre_states": len(sts)}
    return r


def auer_hist_task(N, m, widths, tier, rounds=2, initial_S=None):
    """consecutive rounds of the real Auer phases, fresh valid regions per round (as modeling() rebuilds them), from the initial
    state or from a sparse one (only `initial_S` still candidates, the rest discarded earlier with J1 holding — a hopeless
    design is discarded in round 1; positions in S and design ids then differ).  Claims after every round: J1 and J2 — the
    two halves of the guarantee itself, on a reachable history."""
    mod = A.amod("Auer")
    S0 = set(initial_S) if initial_S is not None else set(range(N))
    ex = Explorer(f"C01:hist:Auer[N={N},m={m},widths={widths},S0={sorted(S0)},rounds={rounds}]", query_timeout_ms=60000,
                  max_paths=400000)
    ex.stop_after_candidates = 3

    def body(ctx):
        import vopy.confidence_region as cr
        eps = ctx.real("eps")
        ctx.assume(eps > 0)
        a = A.build("Auer", N, m, None, None, eps, use_empirical_beta=(widths != "homogeneous"))
        mu = ctx.reals("mu", N, m)
        muz = zs(mu)
        dom_t = lambda q, d: zand([muz[q][k] >= muz[d][k] for k in range(m)])  # noqa
        ok = lambda j, p: zor([muz[j][k] <= muz[p][k] + eps.e for k in range(m)])  # noqa
        J1 = lambda S_, P_, D_: zand([zor([dom_t(q, d) for q in (S_ | P_)]) for d in D_])  # noqa
        J2 = lambda P_: zand([ok(j, p) for p in P_ for j in range(N) if j != p])  # noqa
        D = set(range(N)) - S0
        ctx.assume(J1(S0, set(), D))
        a.S, a.P = set(S0), set()
        hist = []
        for r in range(rounds):
            if not a.S:
                break
            c = ctx.reals(f"c{r}", N, m)
            if widths == "homogeneous":
                b0 = ctx.real(f"beta{r}")
                beta = symarray([[b0] * m for _ in range(N)])
            elif widths == "per_design":
                bb = ctx.reals(f"beta{r}", N)
                beta = symarray([[bb.view(np.ndarray)[i]] * m for i in range(N)])
            else:
                beta = ctx.reals(f"beta{r}", N, m)
            ctx.assume(beta > 0)
            cz, bz = zs(c), zs(beta)
            for i in a.S:
                ctx.assume(zand([z3.And(muz[i][k] >= cz[i][k] - bz[i][k], muz[i][k] <= cz[i][k] + bz[i][k]) for k in range(m)]))
            hist.append((cz, bz))
            regs = list(a.design_space.confidence_regions)
            for i in a.S:
                rg = cr.RectangularConfidenceRegion.__new__(cr.RectangularConfidenceRegion)
                rg.intersect_iteratively = False
                rg.lower, rg.upper = c[i] - beta[i], c[i] + beta[i]
                regs[i] = rg
            a.design_space.confidence_regions = regs
            a.beta_t = symarray([list(beta.view(np.ndarray)[i]) for i in list(a.S)])
            pre = set(a.S)
            with patched((mod, {"np": NpProxy()})):
                a.discarding()
                a.pareto_updating()
            S2, P2 = set(a.S), set(a.P)
            D = D | {i for i in pre if i not in S2 and i not in P2}
            ctx.witness(f"round{r}:|S'|={len(S2)},|P'|={len(P2)}")
            claims = {"J1: every eliminated design is dominated by a kept one": J1(S2, P2, D),
                      "J2: no design exceeds a member of P by ε in every objective": J2(P2)}
            for name, cl in claims.items():
                mdl = ctx.prove(f"{name} (after round {r + 1})", cl)
                if mdl is not None:
                    mv = lambda e: model_value(mdl, e)  # noqa
                    ex.candidate(name, {"kind": "auer_hist", "N": N, "m": m, "eps": frac_json(mv(eps.e)), "widths": widths,
                                        "S0": sorted(S0), "claim": name,
                                        "rounds": [{"c": frac_json([[mv(e) for e in r_] for r_ in cz_]),
                                                    "beta": frac_json([[mv(e) for e in r_] for r_ in bz_])} for cz_, bz_ in hist],
                                        "mu": frac_json([[mv(e) for e in r_] for r_ in muz])},
                                 {"cls": "Auer", "widths": widths, "claim": name[:2], "rounds": len(hist)})
                    return
        ctx.sample({"S0": sorted(S0), "post": [sorted(a.S), sorted(a.P)], "widths": widths, "rounds_run": len(hist)})

    ex.run(body)
    ex.finalize(replay)
    r = ex.result()
    r["config"] = {"cls": "Auer", "N": N, "m": m, "widths": widths, "S0": sorted(S0), "rounds": rounds}
    return r


def _replay_auer_hist(case):
    import vopy.confidence_region as cr
    N, m = case["N"], case["m"]
    G = lambda v: np.array([[float(Fraction(x)) for x in row] for row in from_frac_json(v)])  # noqa
    mu = G(case["mu"])
    eps = float(Fraction(from_frac_json(case["eps"])))
    a = A.build("Auer", N, m, None, None, eps, use_empirical_beta=(case["widths"] != "homogeneous"))
    a.S, a.P = set(case["S0"]), set()
    D = set(range(N)) - a.S
    log = []
    for rd in case["rounds"]:
        if not a.S:
            break
        c, beta = G(rd["c"]), G(rd["beta"])
        if any(np.any(np.abs(mu[i] - c[i]) > beta[i] + 1e-12) for i in a.S):
            return {"reproduced": False, "detail": "truth outside region after float conversion"}
        regs = list(a.design_space.confidence_regions)
        for i in a.S:
            regs[i] = cr.RectangularConfidenceRegion(m, c[i] - beta[i], c[i] + beta[i])
        a.design_space.confidence_regions = regs
        a.beta_t = np.array([beta[i] for i in list(a.S)])
        a.discarding()
        a.pareto_updating()
        log.append((sorted(a.S), sorted(a.P)))
    S2, P2 = set(a.S), set(a.P)
    D2 = set(range(N)) - S2 - P2
    j2 = [(p, j) for p in P2 for j in range(N) if j != p and np.all(mu[j] > mu[p] + eps * (1 + 1e-6))]
    j1 = [d for d in D2 - D if not any(np.all(mu[q] >= mu[d]) for q in S2 | P2)]
    return {"reproduced": bool(j1 or j2), "widths_differ_between_objectives":
            bool(any(np.any(G(rd["beta"]).max(axis=1) - G(rd["beta"]).min(axis=1) > 0) for rd in case["rounds"])),
            "detail": f"Auer, {len(log)} rounds from S={case['S0']} with every truth inside its displayed rectangle: (S, P) per round = {log}; "
                      f"designs exceeding a member of P by ε in every objective: {j2}; eliminated without a dominating kept design: {j1}"}


def _replay_auer(case):
    import vopy.confidence_region as cr
    N, m = case["N"], case["m"]
    G = lambda k: np.array([[float(Fraction(x)) for x in row] for row in from_frac_json(case[k])])  # noqa
    c, beta, mu = G("c"), G("beta"), G("mu")
    eps = float(Fraction(from_frac_json(case["eps"])))
    if np.any(np.abs(mu - c) > beta + 1e-12):
        return {"reproduced": False, "detail": "truth outside region after float conversion"}
    a = A.build("Auer", N, m, None, None, eps, use_empirical_beta=(case["widths"] != "homogeneous"))
    a.design_space.confidence_regions = [cr.RectangularConfidenceRegion(m, c[i] - beta[i], c[i] + beta[i]) for i in range(N)]
    a.beta_t = np.array([beta[i] for i in list(a.S)])
    a.discarding()
    a.pareto_updating()
    S2, P2 = set(a.S), set(a.P)
    D2 = set(range(N)) - S2 - P2
    j2 = [(p, j) for p in P2 for j in range(N) if j != p and np.all(mu[j] > mu[p] + eps * (1 + 1e-6))]
    j1 = [d for d in D2 if not any(np.all(mu[q] >= mu[d]) for q in S2 | P2)]
    return {"reproduced": bool(j1 or j2), "widths_differ_between_objectives": bool(np.any(beta.max(axis=1) - beta.min(axis=1) > 0)),
            "detail": f"Auer one round from the initial state: P={sorted(P2)} S={sorted(S2)}; designs exceeding a member of P by ε "
                      f"in every objective: {j2}; eliminated without a dominating kept design: {j1}"}
