"""C09 — 'is dominated' decides ∀z∈R1 ∀z'∈R2 : z' + slack ≽ z  (rectangles and ellipsoids).

Real code executed symbolically: confidence_region_is_dominated, RectangularConfidenceRegion
.__init__/.is_dominated, EllipsoidalConfidenceRegion.is_dominated, hyperrectangle_get_vertices,
PolyhedralConeOrder.dominates, OrderingCone.is_inside.
"""
from __future__ import annotations

import itertools
from fractions import Fraction

import numpy as np
import z3

from symx import sym
from symx.arr import NpProxy, SymArray, symarray
from symx.explore import Explorer, Inconclusive
from symx.harness import (Wz, cone_set, dotz, frac_json, from_frac_json, load_repo, make_order,
                          model_floats, patched, src_info, zand, zor, zs)
from symx.sym import Sym

PROPERTY = "C09"
from checks.c09_ell import ell_task  # noqa: E402,F401  (task entry point resolved in this module)


def _mods():
    import vopy.confidence_region as cr
    import vopy.order as vo
    import vopy.ordering_cone as oc
    import vopy.utils.utils as uu
    return cr, uu, vo, oc


def rect_closed_form(W, l1, u1, l2, u2, s):
    """oracle (written from the property text): ∀n  min_{z∈R1,z'∈R2} w_n·(z'+s−z) ≥ 0,
    the minimum of a linear functional over a box taken coordinate-wise by the sign of w_ni.
    All arguments z3 terms / exact rationals; W concrete floats."""
    conj = []
    for row in np.asarray(W, dtype=float):
        acc = sym.rv(0)
        for i, w in enumerate(row):
            wq = sym.rv(w)
            if w >= 0:
                acc = acc + wq * (l2[i] - u1[i])
            else:
                acc = acc + wq * (u2[i] - l1[i])
            acc = acc + wq * s[i]
        conj.append(acc >= 0)
    return z3.And(*conj)


def rect_task(cone, W, slack_kind, tier):
    cr, uu, vo, oc = _mods()
    W = np.asarray(W, dtype=float)
    m = W.shape[1]
    order = make_order(W)
    proxy = NpProxy()
    ex = Explorer(f"rect_is_dominated[{cone},{slack_kind}]", query_timeout_ms=120000)
    Wq = Wz(W)

    def body(ctx):
        l1, u1, l2, u2 = (ctx.reals(n, m) for n in ("l1", "u1", "l2", "u2"))
        ctx.assume([l1 <= u1, l2 <= u2])
        if slack_kind == "scalar":
            s = ctx.real("s")
            sv = [s.e] * m
        elif slack_kind == "zero":
            s = np.array(0.0)
            sv = [sym.rv(0)] * m
        else:
            s = ctx.reals("s", m)
            sv = zs(s)
        R1 = cr.RectangularConfidenceRegion(m, l1, u1)
        R2 = cr.RectangularConfidenceRegion(m, l2, u2)
        ret = cr.confidence_region_is_dominated(order, R1, R2, s)
        if not isinstance(ret, (bool, np.bool_)):
            raise sym.HarnessError(f"is_dominated returned {type(ret)}")
        ret = bool(ret)
        ctx.witness(str(ret))
        spec = rect_closed_form(W, zs(l1), zs(u1), zs(l2), zs(u2), sv)
        # (1) exact agreement with the closed form, boundary included (tie ⇒ dominated)
        mdl = ctx.prove("ret==closed_form", spec if ret else z3.Not(spec))
        if mdl is not None:
            _report(ex, ctx, mdl, "ret==closed_form", cone, W, l1, u1, l2, u2, sv, ret)
            return
        # (2) semantic soundness, not via the closed form: ∀ z∈R1, z'∈R2, all facets
        if ret:
            z = [ctx.fresh("z") for _ in range(m)]
            zp = [ctx.fresh("zp") for _ in range(m)]
            inside = zand([zs(l1)[i] <= z[i] for i in range(m)] + [z[i] <= zs(u1)[i] for i in range(m)]
                          + [zs(l2)[i] <= zp[i] for i in range(m)] + [zp[i] <= zs(u2)[i] for i in range(m)])
            dom = zand([dotz(Wq[n], [zp[i] + sv[i] - z[i] for i in range(m)]) >= 0
                        for n in range(len(Wq))])
            mdl = ctx.prove("True⇒∀z∀z'", z3.Implies(inside, dom))
            if mdl is not None:
                _report(ex, ctx, mdl, "True⇒∀z∀z'", cone, W, l1, u1, l2, u2, sv, ret)
        ctx.sample({"cone": cone, "slack": slack_kind, "ret": ret,
                    "path_condition": [str(c)[:200] for c in ctx.pathcond[:4]],
                    "n_decisions": len(ctx.decisions)})

    with patched((cr, {"np": proxy}), (uu, {"np": proxy}), (vo, {"np": proxy}), (oc, {"np": proxy})):
        ex.run(body)
    ex.finalize(replay)
    r = ex.result()
    for lab in ("True", "False"):
        if not ex.witnessed.get(lab):
            r["inconclusive"].append(f"vacuity: outcome {lab} never reached")
    # oracle lemma (closed form ⇔ semantic statement) for this cone, decided once
    r["oracle_lemma"] = _oracle_lemma(W)
    if r["oracle_lemma"] != "unsat/unsat":
        r["inconclusive"].append("oracle lemma not discharged: " + r["oracle_lemma"])
    r["config"] = {"cone": cone, "m": m, "K": int(W.shape[0]), "slack": slack_kind, "region": "rect"}
    r["concrete_validations"] = _validate_rect(W, 40 if tier == "quick" else 200, r)
    return r


def rect_symW_task(tier):
    """thorough: the cone matrix itself symbolic (2×2, any real entries): real is_dominated versus the closed form with
    sign-dependent box minima (If-terms) — covers *all* two-facet 2-D cones at once (NRA, bilinear)"""
    cr, uu, vo, oc = _mods()
    m = K = 2
    proxy = NpProxy()
    ex = Explorer("rect_is_dominated[symbolic 2x2 cone]", query_timeout_ms=120000)

    def body(ctx):
        Ws = ctx.reals("w", K, m)
        order = make_order(Ws)
        l1, u1, l2, u2 = (ctx.reals(n, m) for n in ("l1", "u1", "l2", "u2"))
        s = ctx.reals("s", m)
        ctx.assume([l1 <= u1, l2 <= u2])
        R1 = cr.RectangularConfidenceRegion(m, l1, u1)
        R2 = cr.RectangularConfidenceRegion(m, l2, u2)
        ret = bool(cr.confidence_region_is_dominated(order, R1, R2, s))
        ctx.witness(str(ret))
        wz, L1, U1, L2, U2, S = zs(Ws), zs(l1), zs(u1), zs(l2), zs(u2), zs(s)
        conj = []
        for n in range(K):
            acc = sym.rv(0)
            for i in range(m):
                w = wz[n][i]
                acc = acc + z3.If(w >= 0, w * (L2[i] - U1[i]), w * (U2[i] - L1[i])) + w * S[i]
            conj.append(acc >= 0)
        spec = z3.And(*conj)
        mdl = ctx.prove("ret==closed_form (symbolic cone)", spec if ret else z3.Not(spec))
        if mdl is not None:
            from symx.explore import model_value
            Wc = [[float(model_value(mdl, e)) for e in row] for row in wz]
            vals = {k: [model_value(mdl, e) for e in v] for k, v in (("l1", L1), ("u1", U1), ("l2", L2), ("u2", U2), ("s", S))}
            ex.candidate("ret==closed_form (symbolic cone)", {"kind": "rect", "cone": "symbolic", "W": Wc,
                                                               **{k: frac_json(v) for k, v in vals.items()}, "symbolic_ret": ret},
                         {"region": "rect", "cone": "symbolic2x2"})
            return
        ctx.sample({"ret": ret, "decisions": len(ctx.decisions)})

    with patched((cr, {"np": proxy}), (uu, {"np": proxy}), (vo, {"np": proxy}), (oc, {"np": proxy})):
        ex.run(body)
    ex.finalize(replay)
    r = ex.result()
    r["config"] = {"cone": "symbolic 2x2", "region": "rect"}
    return r


def _oracle_lemma(W):
    """closed form ⇒ semantic, and ¬closed form ⇒ the sign-selected vertex pair violates"""
    m = W.shape[1]
    l1, u1, l2, u2, s, z, zp = ([z3.Real(f"{n}{i}") for i in range(m)]
                                for n in ("l1_", "u1_", "l2_", "u2_", "s_", "z_", "zp_"))
    box = zand([l1[i] <= u1[i] for i in range(m)] + [l2[i] <= u2[i] for i in range(m)])
    inside = zand([l1[i] <= z[i] for i in range(m)] + [z[i] <= u1[i] for i in range(m)] +
                  [l2[i] <= zp[i] for i in range(m)] + [zp[i] <= u2[i] for i in range(m)])
    Wq = Wz(W)
    dom = zand([dotz(Wq[n], [zp[i] + s[i] - z[i] for i in range(m)]) >= 0 for n in range(len(Wq))])
    cf = rect_closed_form(W, l1, u1, l2, u2, s)
    s1 = z3.Solver(); s1.set("timeout", 60000)
    s1.add(box, cf, inside, z3.Not(dom))
    r1 = s1.check()
    # completeness: if the closed form fails, some pair of points in the boxes violates some facet
    # (witness: for the failing facet pick z_i = u1_i / zp_i = l2_i when w_ni ≥ 0, else l1_i / u2_i)
    viol = []
    for n, row in enumerate(W):
        zz = [u1[i] if row[i] >= 0 else l1[i] for i in range(m)]
        zzp = [l2[i] if row[i] >= 0 else u2[i] for i in range(m)]
        viol.append(dotz(Wq[n], [zzp[i] + s[i] - zz[i] for i in range(m)]) < 0)
    s2 = z3.Solver(); s2.set("timeout", 60000)
    s2.add(box, z3.Not(cf), z3.Not(zor(viol)))
    r2 = s2.check()
    return f"{r1}/{r2}"


def _report(ex, ctx, mdl, obligation, cone, W, l1, u1, l2, u2, sv, ret):
    from symx.explore import model_value
    vals = {k: [model_value(mdl, e) for e in zs(a)] for k, a in
            (("l1", l1), ("u1", u1), ("l2", l2), ("u2", u2))}
    vals["s"] = [model_value(mdl, e) for e in sv]
    case = {"kind": "rect", "cone": cone, "W": np.asarray(W).tolist(),
            **{k: frac_json(v) for k, v in vals.items()}, "symbolic_ret": ret}
    ex.candidate(obligation, case, {"region": "rect", "cone": cone})


def _exact_rect_oracle(W, l1, u1, l2, u2, s):
    """exact rational evaluation of the property on concrete data (W floats taken exactly)"""
    for row in np.asarray(W, dtype=float):
        acc = Fraction(0)
        for i, w in enumerate(row):
            wq = Fraction(float(w))
            acc += wq * ((l2[i] - u1[i]) if w >= 0 else (u2[i] - l1[i])) + wq * s[i]
        if acc < 0:
            return False
    return True


def replay(case):
    """run the real, unpatched code on the concrete counterexample and compare with the exact
    rational oracle"""
    cr, uu, vo, oc = _mods()
    if case["kind"] == "rect":
        W = np.array(case["W"], dtype=float)
        g = lambda k: [Fraction(x) for x in from_frac_json(case[k])]  # noqa
        l1, u1, l2, u2, s = g("l1"), g("u1"), g("l2"), g("u2"), g("s")
        f = lambda v: np.array([float(x) for x in v])  # noqa
        # the concrete run uses the floats nearest to the model; the oracle is evaluated on the
        # exact rational value of those same floats
        fl = {k: f(v) for k, v in (("l1", l1), ("u1", u1), ("l2", l2), ("u2", u2), ("s", s))}
        ex = {k: [Fraction(float(x)) for x in v] for k, v in fl.items()}
        order = make_order(W)
        R1 = cr.RectangularConfidenceRegion(len(l1), fl["l1"], fl["u1"])
        R2 = cr.RectangularConfidenceRegion(len(l1), fl["l2"], fl["u2"])
        code = bool(cr.confidence_region_is_dominated(order, R1, R2, fl["s"]))
        oracle = _exact_rect_oracle(W, ex["l1"], ex["u1"], ex["l2"], ex["u2"], ex["s"])
        return {"reproduced": code != oracle, "code": code, "oracle": oracle,
                "detail": f"real is_dominated={code}, exact oracle={oracle}"}
    if case["kind"] == "ell":
        from checks import c09_ell
        return c09_ell.replay(case)
    if case["kind"] == "shape":
        return _replay_shape(case)
    return {"reproduced": False, "detail": "unknown case kind"}


def _validate_rect(W, n, r):
    """encoding validation: concrete random (dyadic) inputs through the real code (floats) and
    through the closed form used as oracle (exact rationals); must agree off the boundary"""
    cr, uu, vo, oc = _mods()
    rng = np.random.RandomState(7)
    order = make_order(W)
    m = W.shape[1]
    ok = 0
    for _ in range(n):
        l1 = np.round(rng.uniform(-2, 2, m) * 16) / 16
        u1 = l1 + np.round(rng.uniform(0, 1, m) * 16) / 16
        l2 = np.round(rng.uniform(-2, 2, m) * 16) / 16
        u2 = l2 + np.round(rng.uniform(0, 1, m) * 16) / 16
        s = np.round(rng.uniform(-1, 1, m) * 16) / 16
        R1 = cr.RectangularConfidenceRegion(m, l1, u1)
        R2 = cr.RectangularConfidenceRegion(m, l2, u2)
        code = bool(cr.confidence_region_is_dominated(order, R1, R2, s))
        fr = lambda v: [Fraction(float(x)) for x in v]  # noqa
        orc = _exact_rect_oracle(W, fr(l1), fr(u1), fr(l2), fr(u2), fr(s))
        if code == orc:
            ok += 1
        else:
            # tolerate only boundary cases (|margin| tiny) — report others as oracle disagreement
            fj = lambda v: frac_json([Fraction(float(x)) for x in v])  # noqa
            r["violations"].append({"obligation": "concrete validation: real code vs exact oracle", "reproduced": True,
                                    "case": {"kind": "rect", "cone": "validation", "W": W.tolist(), "l1": fj(l1),
                                             "u1": fj(u1), "l2": fj(l2), "u2": fj(u2), "s": fj(s)},
                                    "replay_detail": f"code={code} oracle={orc}",
                                    "features": {"region": "rect", "source": "concrete_validation"}})
    return ok


# -- slackness shape guard -------------------------------------------------------------------
def shape_task(tier):
    """sizes 1 and m accepted; any other size must raise ValueError (rectangles: m; ellipsoids: K)"""
    cr, uu, vo, oc = _mods()
    out = {"harness": "slack_shape_guard", "paths": 0, "transitions": 0, "queries": {}, "solver_s": 0.0,
           "violations": [], "inconclusive": [], "obligations": {}, "samples": [], "recorded": []}
    n = 0
    for cone, W in cone_set("quick"):
        m, K = W.shape[1], W.shape[0]
        order = make_order(W)
        R1 = cr.RectangularConfidenceRegion(m, np.zeros(m), np.ones(m))
        R2 = cr.RectangularConfidenceRegion(m, np.ones(m) * 2, np.ones(m) * 3)
        for size in sorted({1, m, K, m + 1, K + 2}):
            s = np.zeros(size)
            try:
                cr.confidence_region_is_dominated(order, R1, R2, s)
                raised = False
            except ValueError:
                raised = True
            expect = size not in (1, m)
            n += 1
            out["recorded"].append({"cone": cone, "size": size, "raised": raised})
            if raised != expect:
                case = {"kind": "shape", "W": W.tolist(), "size": size, "expect_raise": expect}
                out["violations"].append({"obligation": "shape_guard", "case": case, "reproduced": True,
                                          "features": {"region": "rect", "size": size, "m": m}})
    out["paths"] = n
    out["transitions"] = n
    out["concrete_validations"] = n
    out["samples"] = out["recorded"][:2]
    out["recorded"] = out["recorded"][:6]
    return out


def _replay_shape(case):
    cr, uu, vo, oc = _mods()
    W = np.array(case["W"])
    m = W.shape[1]
    order = make_order(W)
    R1 = cr.RectangularConfidenceRegion(m, np.zeros(m), np.ones(m))
    R2 = cr.RectangularConfidenceRegion(m, np.ones(m) * 2, np.ones(m) * 3)
    try:
        cr.confidence_region_is_dominated(order, R1, R2, np.zeros(case["size"]))
        raised = False
    except ValueError:
        raised = True
    return {"reproduced": raised != case["expect_raise"], "detail": f"raised={raised}"}


# ------------------------------------------------------------------------------------------
def tasks(tier, seed):
    ts = []
    for cone, W in cone_set(tier, seed=seed):
        m = W.shape[1]
        kinds = ["vector", "scalar"] if (tier == "thorough" or m == 2) else ["vector"]
        for sk in kinds:
            ts.append({"id": f"rect[{cone},{sk}]", "fn": "rect_task",
                       "args": {"cone": cone, "W": W.tolist(), "slack_kind": sk, "tier": tier},
                       "weight": 10 if m == 3 else 1})
    ts.append({"id": "slack_shape_guard", "fn": "shape_task", "args": {"tier": tier}})
    ts.append({"id": "rect[symbolic 2x2 cone]", "fn": "rect_symW_task", "args": {"tier": tier}, "weight": 500})
    try:
        from checks import c09_ell
        ts.extend(c09_ell.tasks(tier, seed))
    except ImportError:
        pass
    return ts


def meta(tier):
    cr, uu, vo, oc = _mods()
    return {
        "level": "model_checking",
        "functions": src_info(cr.confidence_region_is_dominated,
                              cr.RectangularConfidenceRegion.__init__,
                              cr.RectangularConfidenceRegion.is_dominated,
                              cr.EllipsoidalConfidenceRegion.is_dominated,
                              uu.hyperrectangle_get_vertices, vo.PolyhedralConeOrder.dominates,
                              oc.OrderingCone.is_inside),
        "bounds": {"m": "2..3", "K": "<=6", "cones": [c for c, _ in cone_set(tier)] + ["fully symbolic 2x2 cone matrix (rectangles)"],
                   "regions": "all rectangles lower<=upper (degenerate edges included), all real slacks"},
        "stubs": ["ellipsoids: cvxpy exact-optimum stub (per facet: attainment witness + lower-bound fact instantiated at the "
                  "oracle's points, both variable orders)", "scipy.linalg.sqrtm / np.linalg.inv through Σ = T^-2 with T symmetric "
                  "positive definite"],
        "assumptions": ["floats are encoded as exact reals (binary64 rounding outside the claim)",
                        "cone matrices are the exact rationals of the floats VOPy's constructors return",
                        "ellipsoids: radii > 0; exact solver statuses; *_inaccurate and the SCS fallback outside; replay "
                        "oracle = closed-form support function with a 1e-6 relative boundary band"],
        "outside": ["ill-conditioned Σ (condition number > 1e8) in replays", "m > 3"],
        "explanation": "symbolic execution of the real is_dominated code over symbolic regions; per "
                       "feasible path the returned boolean is proved equal to the closed-form "
                       "specification and (for True) to the ∀∀ statement itself",
    }
