"""checks.algo — shared machinery for the algorithm-level properties (C01, C02, C03, C05, C06, C11).

* builders: algorithm objects are created by the REAL __init__ with the module globals
  get_dataset_instance / get_gpytorch_model*_w_known_hyperparams redirected to stubs
* summaries (assume-guarantee): confidence_region_is_dominated / _is_covered / _check_dominates of
  the algorithm module are replaced by table look-ups DOM[i,j,slack], COV[i,j,slack], PD[j,i]
  (z3 booleans, forked on demand; the same table entry is returned for the same arguments)
* reference transitions written from the property text over the same tables
* realisation: concrete regions whose exact geometry yields a given table (for replay)
"""
from __future__ import annotations

import itertools
import math
from fractions import Fraction
from types import SimpleNamespace

import numpy as np
import z3

from symx import lp, sym
from symx.arr import NpProxy, SymArray, symarray
from symx.harness import Wz, dotz, frac_json, from_frac_json, make_order, patched, zand, zor, zs
from symx.sym import HarnessError, Sym, SymBool

PAVEBA = ("PaVeBa", "PaVeBaGP", "PaVeBaPartialGP")
PESS = ("VOGP", "EpsilonPAL", "VOGP_AD")


def amod(cls_name):
    import importlib
    name = {"PaVeBa": "paveba", "PaVeBaGP": "paveba_gp", "PaVeBaPartialGP": "paveba_partial_gp",
            "VOGP": "vogp", "VOGP_AD": "vogp_ad", "EpsilonPAL": "epal", "Auer": "auer",
            "NaiveElimination": "naive_elimination", "DecoupledGP": "decoupled"}[cls_name]
    return importlib.import_module("vopy.algorithms." + name)


class DSStub:
    def __init__(self, N, m, in_dim=1, out=None):
        self.in_data = np.array([[i / max(1, N - 1)] * in_dim for i in range(N)], dtype=float)
        self.out_data = np.zeros((N, m)) if out is None else out
        self.in_dim, self.out_dim, self._cardinality = in_dim, m, N


class StubGP:
    """stub posterior / model: records add_sample calls; predict returns what `table(X)` says"""

    def __init__(self, m, table=None):
        self.output_dim = m
        self.m = m
        self.table = table
        self.added = []
        self.updates = 0
        self.predict_calls = []

    def predict(self, X):
        self.predict_calls.append(X)
        if self.table is None:
            raise HarnessError("stub model has no prediction table")
        return self.table(X)

    def add_sample(self, *a):
        self.added.append(a)

    def update(self):
        self.updates += 1

    def train(self):
        pass

    def clear_data(self):
        pass

    def get_lengthscale_and_var(self):
        return np.ones(self.m), np.ones(self.m)

    def get_kernel_type(self):
        return "RBF"

    def sample_from_posterior(self, X, sample_count=1):
        raise HarnessError("posterior sampling is not modelled")


class ContProblemStub:
    in_dim, out_dim, depth_max = 1, 2, 3

    def __init__(self, m=2, in_dim=1, depth_max=3):
        self.out_dim, self.in_dim, self.depth_max = m, in_dim, depth_max
        self.calls = []

    def evaluate(self, x, noisy=True):
        self.calls.append(x)
        return np.zeros((len(x), self.out_dim))


def build(cls_name, N, m, W, alpha, eps, ctype=None, model=None, **kw):
    """algorithm object through the real __init__ (stubbed data / model factories).  `eps` may be a
    Sym.  Returns the object; its module's `np` must be patched by the caller while methods run."""
    mod = amod(cls_name)
    cls = getattr(mod, cls_name)
    order = make_order(np.asarray(W, dtype=float), alpha=alpha) if W is not None else None
    model = model or StubGP(m)
    ds = DSStub(N, m)
    stubs = {"get_dataset_instance": lambda name: ds,
             "get_gpytorch_model_w_known_hyperparams": lambda *a, **k: model,
             "get_gpytorch_modellist_w_known_hyperparams": lambda *a, **k: model,
             "np": NpProxy()}
    stubs = {k: v for k, v in stubs.items() if hasattr(mod, k)}
    with patched((mod, stubs)):
        if cls_name == "PaVeBa":
            a = cls(eps, 0.05, "stub", order, 0.01, **kw)
        elif cls_name == "PaVeBaGP":
            a = cls(eps, 0.05, "stub", order, 0.01, type="IH" if ctype == "hyperrectangle" else "DE", **kw)
        elif cls_name == "PaVeBaPartialGP":
            a = cls(eps, 0.05, "stub", order, 0.01, confidence_type=ctype or "hyperrectangle", **kw)
        elif cls_name == "VOGP":
            a = cls(eps, 0.05, "stub", order, 0.01, **kw)
        elif cls_name == "EpsilonPAL":
            a = cls(eps, 0.05, "stub", 0.01, **kw)
        elif cls_name == "Auer":
            a = cls(eps, 0.05, "stub", 0.01, **kw)
        elif cls_name == "VOGP_AD":
            a = cls(eps, 0.05, ContProblemStub(m), order, 0.01, **kw)
        elif cls_name == "NaiveElimination":
            a = cls(eps, 0.05, "stub", order, 0.01, **kw)
        elif cls_name == "DecoupledGP":
            a = cls("stub", order, 0.01, **kw)
        else:
            raise HarnessError(cls_name)
    return a


def region_type(cls_name, ctype=None):
    if cls_name == "PaVeBa":
        return "hyperellipsoid"
    if cls_name in ("PaVeBaGP", "PaVeBaPartialGP"):
        return ctype or "hyperrectangle"
    return "hyperrectangle"


# ------------------------------------------------------------------------------------------
def slack_key(slack, n):
    """canonical key of a slack argument, broadcast to length n"""
    a = np.asarray(slack, dtype=object).ravel()
    if a.size == 1:
        a = np.array([a[0]] * n, dtype=object)
    return tuple(str(z3.simplify(sym.to_z3(x))) for x in a)


class Tables:
    """predicate tables of one path; entries are z3 booleans forked on first use"""

    def __init__(self, ctx, regions, m, K, rtype):
        self.ctx = ctx
        self.idx = {id(r): i for i, r in enumerate(regions)}
        self.m, self.K, self.rtype = m, K, rtype
        self.vars = {}
        self.calls = []
        self.hooks = []  # callbacks (kind, i, j, key, value) for induction-mode facts

    def n_slack(self):
        return self.m if self.rtype == "hyperrectangle" else self.K

    def var(self, kind, i, j, key=()):
        k = (kind, i, j, key)
        if k not in self.vars:
            self.vars[k] = z3.Bool(f"{kind}[{i},{j}]{'|' + ','.join(key) if key else ''}")
        return self.vars[k]

    def _ij(self, r1, r2):
        try:
            return self.idx[id(r1)], self.idx[id(r2)]
        except KeyError:
            raise HarnessError("predicate called on a region that is not a displayed region of a design")

    def _ask(self, kind, i, j, key):
        v = self.var(kind, i, j, key)
        b = self.ctx.decide(v)
        self.calls.append((kind, i, j, key, b))
        for h in self.hooks:
            h(kind, i, j, key, b)
        return b

    def is_dominated(self, order, r1, r2, slack):
        i, j = self._ij(r1, r2)
        return self._ask("DOM", i, j, slack_key(slack, self.n_slack()))

    def is_covered(self, order, r1, r2, slack):
        i, j = self._ij(r1, r2)
        return self._ask("COV", i, j, slack_key(slack, self.n_slack()))

    def check_dominates(self, order, r1, r2, slack=None):
        i, j = self._ij(r1, r2)
        return self._ask("PD", i, j, ())

    def patches(self):
        return {"confidence_region_is_dominated": self.is_dominated,
                "confidence_region_is_covered": self.is_covered,
                "confidence_region_check_dominates": self.check_dominates}


def sym_regions(ctx, algo, N, m, rtype, spheres=True, tag=""):
    """replace the displayed regions of the real design space by symbolic ones (real region classes)"""
    import vopy.confidence_region as cr
    regs = []
    for i in range(N):
        if rtype == "hyperrectangle":
            lo, up = ctx.reals(f"{tag}lo{i}", m), ctx.reals(f"{tag}up{i}", m)
            ctx.assume(lo < up)  # non-empty interior (every displayed region has positive width)
            r = cr.RectangularConfidenceRegion.__new__(cr.RectangularConfidenceRegion)
            r.intersect_iteratively = False
            r.lower, r.upper = lo, up
        else:
            c = ctx.reals(f"{tag}c{i}", m)
            a = ctx.real(f"{tag}rad{i}")
            ctx.assume(a > 0)
            r = cr.EllipsoidalConfidenceRegion.__new__(cr.EllipsoidalConfidenceRegion)
            r.center, r.alpha = c, a
            r.sigma = np.eye(m)
        regs.append(r)
    algo.design_space.confidence_regions = regs
    return regs


def pre_states(N, kind, tier):
    """every assignment of N designs to the state classes, S non-empty"""
    classes = ("S", "U", "P", "gone") if kind == "paveba" else ("S", "P", "gone")
    out = []
    for assign in itertools.product(classes, repeat=N):
        if "S" not in assign:
            continue
        S = {i for i, a in enumerate(assign) if a == "S"}
        U = {i for i, a in enumerate(assign) if a == "U"}
        P = {i for i, a in enumerate(assign) if a in ("P", "U")}
        out.append((S, P, U))
    return out


# -- reference transitions (from the property text) over the same tables ------------------------
def ref_paveba(T, N, S, P, U, key_zero, key_eps):
    """returns dicts of z3 formulas: S1 (after discarding), newP, S', P', U'"""
    A = S | U
    B = z3.BoolVal
    disc = {i: zor([T.var("DOM", i, j, key_zero) for j in A if j != i]) if i in S else B(False) for i in range(N)}
    S1 = {i: z3.And(B(i in S), z3.Not(disc[i])) for i in range(N)}
    inA1 = {j: z3.Or(S1[j], B(j in U)) for j in range(N)}
    new = {i: z3.And(S1[i], z3.Not(zor([z3.And(inA1[j], T.var("COV", i, j, key_eps)) for j in range(N) if j != i])))
           for i in range(N)}
    P2 = {i: z3.Or(B(i in P), new[i]) for i in range(N)}
    S2 = {i: z3.And(S1[i], z3.Not(new[i])) for i in range(N)}
    U2 = {p: z3.And(P2[p], zor([z3.And(S2[s], T.var("COV", s, p, key_eps)) for s in range(N) if s != p]))
          for p in range(N)}
    return {"disc": disc, "S1": S1, "new": new, "S2": S2, "P2": P2, "U2": U2}


def ref_pess(T, N, S, P, key_slack, gate=None):
    W = S | P
    B = z3.BoolVal
    pess = {i: z3.And(B(i in W), z3.Not(zor([T.var("PD", j, i) for j in W if j != i]))) for i in range(N)}
    disc = {i: z3.And(B(i in S), z3.Not(pess[i]),
                      zor([z3.And(pess[j], T.var("DOM", i, j, key_slack)) for j in W if j != i]))
            for i in range(N)}
    S1 = {i: z3.And(B(i in S), z3.Not(disc[i])) for i in range(N)}
    inW1 = {j: z3.Or(S1[j], B(j in P)) for j in range(N)}
    new = {i: z3.And(S1[i], z3.Not(zor([z3.And(inW1[j], T.var("COV", i, j, key_slack)) for j in range(N) if j != i])))
           for i in range(N)}
    if gate is not None:
        new = {i: z3.And(gate(S1), new[i]) for i in range(N)}
    P2 = {i: z3.Or(B(i in P), new[i]) for i in range(N)}
    S2 = {i: z3.And(S1[i], z3.Not(new[i])) for i in range(N)}
    return {"pess": pess, "disc": disc, "S1": S1, "new": new, "S2": S2, "P2": P2}


# -- exact geometric definitions of the table entries (realisation / replay) ----------------------
MARGIN = Fraction(1, 100)   # realised counterexamples are asked to be this far from every predicate boundary
LINEAR = False              # True: linear *sufficient* certificates for the negative cases (fast first attempt)
EXACT = False               # True: definitions without margins (exact iff) — used to discard unrealisable tables


def _rect_facet_margins(W, ri, rj, s):
    l1, u1, l2, u2 = zs(ri.lower), zs(ri.upper), zs(rj.lower), zs(rj.upper)
    out = []
    for row in np.asarray(W, dtype=float):
        acc = sym.rv(0)
        for i, w in enumerate(row):
            wq = sym.rv(w)
            acc = acc + wq * ((l2[i] - u1[i]) if w >= 0 else (u2[i] - l1[i])) + wq * s[i]
        out.append(acc)
    return out


def rect_dom_def(W, ri, rj, s, value=None):
    """closed form of ∀∀; with `value` given: the robust version (margin on the deciding side)"""
    mg = _rect_facet_margins(W, ri, rj, s)
    if value is None:
        return zand([a >= 0 for a in mg])
    if EXACT:
        return zand([a >= 0 for a in mg]) if value else zor([a < 0 for a in mg])
    if value:
        return zand([a >= sym.rv(MARGIN) for a in mg])
    return zor([a <= -sym.rv(MARGIN) for a in mg])


def rect_cov_def(ctx, W, ri, rj, s, value):
    """∃z∈R_i ∃z'∈R_j: W(z'−z−s) ≥ 0 — witness when true, Farkas certificate when false (both QF)"""
    from checks.c10 import rect_oracle
    Wq = Wz(W)
    m = W.shape[1]
    z = [ctx.fresh("rz") for _ in range(m)]
    zp = [ctx.fresh("rzp") for _ in range(m)]
    if value:
        return rect_oracle(Wq, zs(ri.lower), zs(ri.upper), zs(rj.lower), zs(rj.upper), s, z, zp,
                           margin=None if EXACT else sym.rv(MARGIN))
    if LINEAR and not EXACT:
        # some facet cannot be satisfied by any pair: max over the boxes of w_n·(z'−z−s) ≤ −margin
        l1, u1, l2, u2 = zs(ri.lower), zs(ri.upper), zs(rj.lower), zs(rj.upper)
        alts = []
        for row in np.asarray(W, dtype=float):
            acc = sym.rv(0)
            for k, w in enumerate(row):
                wq = sym.rv(w)
                acc = acc + wq * ((u2[k] - l1[k]) if w >= 0 else (l2[k] - u1[k])) - wq * s[k]
            alts.append(acc <= -sym.rv(MARGIN))
        return zor(alts)
    f = rect_oracle(Wq, zs(ri.lower), zs(ri.upper), zs(rj.lower), zs(rj.upper), s, z, zp)
    atoms = lp.linear_atoms(f, z + zp)
    cert, _ = lp.farkas_infeasible(atoms, ctx.fresh, margin=None if EXACT else MARGIN)
    return cert


def rect_pd_def(ctx, W, rj, ri, value):
    """check_dominates(R_j, R_i): every vertex v of R_j dominates some point of R_i.
    true: a witness per vertex; false: some vertex with a separating direction d ≥ 0"""
    Wq = Wz(W)
    m = W.shape[1]
    K = W.shape[0]
    lj, uj, li, ui = zs(rj.lower), zs(rj.upper), zs(ri.lower), zs(ri.upper)
    verts_j = list(itertools.product(*[(lj[k], uj[k]) for k in range(m)]))
    verts_i = list(itertools.product(*[(li[k], ui[k]) for k in range(m)]))
    if value:
        out = []
        for v in verts_j:
            z = [ctx.fresh("pz") for _ in range(m)]
            out.append(z3.And(zand([z3.And(li[k] <= z[k], z[k] <= ui[k]) for k in range(m)]),
                              zand([dotz(row, [v[k] - z[k] for k in range(m)]) >= (0 if EXACT else sym.rv(MARGIN)) for row in Wq])))
        return zand(out)
    if LINEAR and not EXACT:
        # some vertex v of R_j and facet k with w_k·v below the minimum of w_k over R_i
        alts = []
        for v in verts_j:
            for row, rowf in zip(Wq, np.asarray(W, dtype=float)):
                mn = sum((sym.rv(w) * (li[k] if w >= 0 else ui[k]) for k, w in enumerate(rowf)), sym.rv(0))
                alts.append(dotz(row, v) + sym.rv(MARGIN) <= mn)
        return zor(alts)
    alts = []
    for v in verts_j:
        d = [ctx.fresh("pd") for _ in range(K)]
        q = [dotz(row, v) for row in Wq]
        alts.append(z3.And(zand([x >= 0 for x in d]), sum(d, sym.rv(0)) == 1,
                           zand([(dotz(d, q) < dotz(d, [dotz(row, vi) for row in Wq])) if EXACT else
                                 (dotz(d, q) + sym.rv(MARGIN) <= dotz(d, [dotz(row, vi) for row in Wq])) for vi in verts_i])))
    return zor(alts)


def sphere_dom_def(W, ri, rj, s, value=None):
    """spheres (Σ = I): min over the balls of w_n·(y−x) = w_n·(c_j−c_i) − (α_i+α_j)‖w_n‖, ‖w_n‖ = 1"""
    Wq = Wz(W)
    ci, cj = zs(ri.center), zs(rj.center)
    mg = [dotz(row, [cj[k] - ci[k] for k in range(len(ci))]) - sym.to_z3(ri.alpha) - sym.to_z3(rj.alpha) + s[n]
          for n, row in enumerate(Wq)]
    if value is None:
        return zand([a >= 0 for a in mg])
    if EXACT:
        return zand([a >= 0 for a in mg]) if value else zor([a < 0 for a in mg])
    if value:
        return zand([a >= sym.rv(MARGIN) for a in mg])
    return zor([a <= -sym.rv(MARGIN) for a in mg])


def sphere_cov_def(ctx, W, ri, rj, s, value):
    """∃x∈B_i ∃y∈B_j: W(y−x) ≥ s (per facet).  true: witness.  false: exact only through the SOCP
    dual; here the certificate 'some facet cannot be reached' (sufficient) — callers must treat an
    unsatisfiable realisation as inconclusive when this branch was used with K > 1"""
    Wq = Wz(W)
    m = W.shape[1]
    ci, cj = zs(ri.center), zs(rj.center)
    ai, aj = sym.to_z3(ri.alpha), sym.to_z3(rj.alpha)
    if value:
        x = [ctx.fresh("sx") for _ in range(m)]
        y = [ctx.fresh("sy") for _ in range(m)]
        sh = 1 - sym.rv(MARGIN)
        if LINEAR and not EXACT:
            # witnesses inside the cubes inscribed in the balls (sufficient, linear): |x_k − c_k| ≤ q·α, q < 1/√m
            q = sym.rv(Fraction(int(1000 / math.sqrt(m)) - 5, 1000))
            return z3.And(zand([z3.And(x[k] - ci[k] <= q * ai, ci[k] - x[k] <= q * ai) for k in range(m)]),
                          zand([z3.And(y[k] - cj[k] <= q * aj, cj[k] - y[k] <= q * aj) for k in range(m)]),
                          zand([dotz(row, [y[k] - x[k] for k in range(m)]) >= s[n] + sym.rv(MARGIN)
                                for n, row in enumerate(Wq)]))
        return z3.And(sum(((x[k] - ci[k]) * (x[k] - ci[k]) for k in range(m)), sym.rv(0)) <= ai * ai * sh * sh,
                      sum(((y[k] - cj[k]) * (y[k] - cj[k]) for k in range(m)), sym.rv(0)) <= aj * aj * sh * sh,
                      zand([dotz(row, [y[k] - x[k] for k in range(m)]) >= s[n] + sym.rv(MARGIN)
                            for n, row in enumerate(Wq)]))
    return zor([dotz(row, [cj[k] - ci[k] for k in range(m)]) + ai + aj <= s[n] - sym.rv(MARGIN)
                for n, row in enumerate(Wq)])


def slack_terms(key_source, n):
    a = np.asarray(key_source, dtype=object).ravel()
    if a.size == 1:
        a = np.array([a[0]] * n, dtype=object)
    return [sym.to_z3(x) for x in a]
