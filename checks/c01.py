"""C01 — valid confidence regions imply an ε-accurate Pareto set (PaVeBa family, Auer)."""
from __future__ import annotations

import numpy as np

from symx.harness import cone_set, src_info
from checks import algo as A
from checks import trans
from checks.c19 import _alpha_for
from checks.induct import induct_task, auer_induct_task, auer_hist_task, replay  # noqa: F401 (task entry points)

PROPERTY = "C01"


def tasks(tier, seed):
    ts = []
    cones = cone_set(tier, seed=seed)
    names = ["orthant2", "theta60", "theta120", "orthant3", "3d_obtuse", "icecream_K4"] if tier == "quick" else \
        trans.THOROUGH_CONES + ["theta45", "theta135"]   # the whole 10°-grid with N = 4 was several hours
    for cone, W in cones:
        if cone not in names:
            continue
        K, m = W.shape
        N = 4 if (tier != "quick" and cone in trans.N4_CONES) else 3
        for cls, ct in (("PaVeBa", None), ("PaVeBaGP", "hyperellipsoid"), ("PaVeBaPartialGP", "hyperellipsoid")):
            if tier == "quick" and cls != "PaVeBa" and cone not in ("orthant2", "theta120", "icecream_K4"):
                continue
            ts.append({"id": f"step:{cls}[elli,{cone},N={N}]", "fn": "induct_task",
                       "args": {"cls_name": cls, "ctype": ct, "cone": cone, "W": W.tolist(), "N": N, "prop": "C01", "tier": tier},
                       "weight": 10 ** (N - 2)})
        # two consecutive rounds from the initial state (fresh regions per round): reachable histories
        for cls, ct in (("PaVeBa", None), ("PaVeBaGP", "hyperellipsoid")):
            if tier == "quick" and cone not in ("orthant2", "theta60", "theta120"):
                continue
            ts.append({"id": f"hist:{cls}[elli,{cone},N=2,rounds=2]", "fn": "induct_task",
                       "args": {"cls_name": cls, "ctype": ct, "cone": cone, "W": W.tolist(), "N": 2, "prop": "C01", "tier": tier,
                                "base_only": True, "rounds": 2}, "weight": 20})
        if K != m:
            continue   # rectangle variants raise for K != m (C06 known finding)
        a = np.asarray(_alpha_for(W), dtype=float).flatten()
        ratio = float(np.max((W @ a) / a))
        for cls in ("PaVeBaGP", "PaVeBaPartialGP"):
            if ratio <= 1 + 1e-6:
                ts.append({"id": f"hist:{cls}[rect,{cone},N=2,rounds=2]", "fn": "induct_task",
                           "args": {"cls_name": cls, "ctype": "hyperrectangle", "cone": cone, "W": W.tolist(), "N": 2,
                                    "prop": "C01", "tier": tier, "base_only": True, "rounds": 2}, "weight": 20})
                ts.append({"id": f"step:{cls}[rect,{cone},N={N}]", "fn": "induct_task",
                           "args": {"cls_name": cls, "ctype": "hyperrectangle", "cone": cone, "W": W.tolist(), "N": N,
                                    "prop": "C01", "tier": tier}, "weight": 10 ** (N - 2)})
            if ratio > 1 + 1e-6:
                # known finding F-C01-rect-slack-in-objective-space lives here; so that it cannot mask a different defect,
                # the induction is also run with the weaker bound ε·(Wα)_n the rectangle predicate does guarantee
                ts.append({"id": f"step(weak slack):{cls}[rect,{cone},N={N}]", "fn": "induct_task",
                           "args": {"cls_name": cls, "ctype": "hyperrectangle", "cone": cone, "W": W.tolist(), "N": N,
                                    "prop": "C01", "tier": tier, "weak_slack": True}, "weight": 10 ** (N - 2)})
                ts.append({"id": f"hist(weak slack):{cls}[rect,{cone},N=2,rounds=2]", "fn": "induct_task",
                           "args": {"cls_name": cls, "ctype": "hyperrectangle", "cone": cone, "W": W.tolist(), "N": 2,
                                    "prop": "C01", "tier": tier, "base_only": True, "rounds": 2, "weak_slack": True}, "weight": 20})
            # the step from the initial state on its own: a failure here is a reachable history.  Cones whose ratio
            # (Wα)_n/α_n lies in (1, 1.1) are left to the weak-slack runs: the open finding's counterexample exists there
            # but is too thin to be realised with margins (rand2d_0, ratio 1.05: realisation queries return unknown)
            if 1 + 1e-6 < ratio < 1.1:
                continue
            ts.append({"id": f"base:{cls}[rect,{cone},N=2]", "fn": "induct_task",
                       "args": {"cls_name": cls, "ctype": "hyperrectangle", "cone": cone, "W": W.tolist(), "N": 2,
                                "prop": "C01", "tier": tier, "base_only": True}, "weight": 5})
    for widths in ("homogeneous", "per_design"):
        ts.append({"id": f"step:Auer[{widths}]", "fn": "auer_induct_task",
                   "args": {"N": 3, "m": 2, "widths": widths, "tier": tier}, "weight": 100})
    # reachable multi-round histories, also from sparse states where positions in S and design ids differ
    # (widths equal across objectives only: the per-objective case is the open finding above)
    for widths in ("homogeneous", "per_design"):
        # (two rounds from the full three-design state did not finish in 40 min: two candidates left, more rounds instead)
        for N, S0, rounds in ((3, (1, 2), 3), (3, (0, 2), 3)) if tier == "quick" else \
                ((3, (1, 2), 4), (3, (0, 2), 4), (3, (0, 1), 3), (4, (1, 3), 3), (4, (2, 3), 3), (5, (4, 1), 3)):
            ts.append({"id": f"hist:Auer[{widths},N={N},S0={list(S0)},rounds={rounds}]", "fn": "auer_hist_task",
                       "args": {"N": N, "m": 2, "widths": widths, "tier": tier, "rounds": rounds, "initial_S": list(S0)},
                       "weight": 60})
    for widths in ("homogeneous", "per_design", "per_objective"):
        ts.append({"id": f"base:Auer[{widths}]", "fn": "auer_induct_task",
                   "args": {"N": 2, "m": 2, "widths": widths, "tier": tier, "base_only": True}, "weight": 5})
    return ts


def meta(tier):
    fs = []
    for c in ("PaVeBa", "PaVeBaGP", "PaVeBaPartialGP"):
        cls = getattr(A.amod(c), c)
        fs += [cls.__init__, cls.discarding, cls.pareto_updating, cls.useful_updating]
    au = getattr(A.amod("Auer"), "Auer")
    fs += [au.discarding, au.pareto_updating, au.small_m, au.big_m]
    return {"level": "model_checking", "functions": src_info(*fs),
            "bounds": {"N": "3 designs (4 in the thorough tier for orthant2, theta60, theta120); the induction makes the number of rounds unbounded for that N",
                       "m": "2..3", "regions": "rectangles: arbitrary with lower<upper; ellipsoids: ANY shape (through their "
                       "support intervals along the facet normals), incl. cones with K != m"},
            "stubs": ["region predicates as tables with their specification instantiated at the truths (C09/C10 contract)",
                      "α from VOPy's get_alpha_vec (relative tolerance 1e-6 on ε)"],
            "assumptions": ["conditional on C09/C10 (predicate code = specification) and C17 (α)", "displayed regions have "
                            "non-empty interior", "truth of every design in S ∪ P lies in the region last displayed for it",
                            "rectangle variants with cones where (Wα)_n > α_n and Auer with per-objective widths are "
                            "checked from the initial state only (open known findings)"],
            "explanation": "one inductive step of the real discarding/pareto_updating/useful_updating code from every "
                           "invariant-satisfying state: J1 (eliminated designs are dominated by kept ones), J2 (members of P "
                           "have gap ≤ ε), J3 (dropped Pareto designs cannot ε-exceed candidates); S=∅ ∧ J1 ∧ J2 is the "
                           "property's consequent"}
