"""C13 — Pareto-set extraction is exact (real get_pareto_set / get_pareto_set_naive)."""
from __future__ import annotations

from fractions import Fraction

import numpy as np
import z3

from symx import sym
from symx.arr import NpProxy
from symx.explore import Explorer, model_value
from symx.harness import (Wz, cone_set, dotz, frac_json, from_frac_json, make_order, patched,
                          src_info, zand, zor, zs)

PROPERTY = "C13"
ATOL, RTOL = Fraction(1e-8), Fraction(1e-5)  # exact values of numpy.allclose's float defaults


def _mods():
    import vopy.order as vo
    import vopy.ordering_cone as oc
    return vo, oc


def _dom(Wq, a, b):
    """a ≽ b  (z3)"""
    return zand([dotz(row, [a[i] - b[i] for i in range(len(a))]) >= 0 for row in Wq])


def pareto_task(cone, W, N, routine, tier):
    vo, oc = _mods()
    W = np.asarray(W, dtype=float)
    m = W.shape[1]
    order = make_order(W)
    proxy = NpProxy()
    Wq = Wz(W)
    ex = Explorer(f"{routine}[{cone},N={N}]", query_timeout_ms=60000, max_paths=400000)
    fn = getattr(order, routine)

    def body(ctx):
        V = ctx.reals("v", N, m)
        vz = zs(V)
        if routine == "get_pareto_set_naive":
            # the allclose tolerance is part of the statement: vectors are either equal or clearly
            # separated (the band between is outside the claim)
            for i in range(N):
                for j in range(N):
                    if i == j:
                        continue
                    eq = zand([vz[i][k] == vz[j][k] for k in range(m)])
                    sep = zor([z3.If(vz[i][k] - vz[j][k] >= 0, vz[i][k] - vz[j][k], vz[j][k] - vz[i][k])
                               > sym.rv(ATOL) + sym.rv(RTOL) * z3.If(vz[j][k] >= 0, vz[j][k], -vz[j][k])
                               for k in range(m)])
                    ctx.assume(z3.Or(eq, sep))
        ret = fn(V)
        if not isinstance(ret, np.ndarray) or ret.dtype.kind not in "iu":
            raise sym.HarnessError(f"unexpected return {type(ret)} {getattr(ret, 'dtype', None)}")
        idx = [int(x) for x in ret]
        ctx.witness(f"|P|={len(idx)}")
        # index sanity is concrete on a path; a failing path is a counterexample (any model of it)
        sane = all(0 <= i < N for i in idx) and all(a < b for a, b in zip(idx, idx[1:]))
        if not sane:
            mdl = ctx.satisfiable()
            if mdl is not None:
                _cand(ex, mdl, "indices_valid_distinct_increasing", cone, W, vz, routine)
            return
        strict = lambda j, i: z3.And(_dom(Wq, vz[j], vz[i]), z3.Not(_dom(Wq, vz[i], vz[j])))  # noqa
        claims = {
            "no_returned_strictly_dominated": zand([z3.Not(strict(j, i)) for i in idx for j in range(N)]),
            "every_input_weakly_dominated": zand([zor([_dom(Wq, vz[i], vz[k]) for i in idx])
                                                  for k in range(N)]),
        }
        if routine == "get_pareto_set":
            claims["equal_values_once"] = zand([z3.Not(zand([vz[a][k] == vz[b][k] for k in range(m)]))
                                                for ai, a in enumerate(idx) for b in idx[ai + 1:]])
        else:
            # all copies kept: i returned ⇔ no different-valued vector dominates it
            keep = []
            for i in range(N):
                dominated = zor([z3.And(_dom(Wq, vz[j], vz[i]),
                                        z3.Not(zand([vz[i][k] == vz[j][k] for k in range(m)])))
                                 for j in range(N) if j != i])
                keep.append(z3.Not(dominated) if i in idx else dominated)
            claims["all_copies_kept_iff_nondominated"] = zand(keep)
        for name, cl in claims.items():
            mdl = ctx.prove(name, cl)
            if mdl is not None:
                _cand(ex, mdl, name, cone, W, vz, routine)
                return
        ctx.sample({"cone": cone, "N": N, "returned": idx, "decisions": len(ctx.decisions),
                    "path_condition_head": [str(c)[:120] for c in ctx.pathcond[:3]]})

    with patched((vo, {"np": proxy}), (oc, {"np": proxy})):
        ex.run(body)
    ex.finalize(replay)
    r = ex.result()
    if len(ex.witnessed) < min(N, 2):
        r["inconclusive"].append("vacuity: fewer than 2 distinct outcome sizes reached")
    r["config"] = {"cone": cone, "N": N, "m": m, "K": int(W.shape[0]), "routine": routine}
    r["concrete_validations"] = _validate(W, routine, N, 30 if tier == "quick" else 200, r)
    return r


def _cand(ex, mdl, name, cone, W, vz, routine):
    vals = [[model_value(mdl, e) for e in row] for row in vz]
    ex.candidate(name, {"cone": cone, "W": np.asarray(W).tolist(), "routine": routine,
                        "V": frac_json(vals)}, {"cone": cone, "routine": routine, "N": len(vz)})


def _exact_check(W, V, idx, routine):
    """exact rational oracle on concrete data: returns list of violated clause names"""
    Wf = [[Fraction(float(w)) for w in row] for row in W]
    N = len(V)
    dom = lambda a, b: all(sum(w * (x - y) for w, x, y in zip(row, a, b)) >= 0 for row in Wf)  # noqa
    bad = []
    idx = list(idx)
    if not (all(0 <= i < N for i in idx) and all(a < b for a, b in zip(idx, idx[1:]))):
        return ["indices_valid_distinct_increasing"]
    for i in idx:
        if any(dom(V[j], V[i]) and not dom(V[i], V[j]) for j in range(N)):
            bad.append("no_returned_strictly_dominated")
            break
    for k in range(N):
        if not any(dom(V[i], V[k]) for i in idx):
            bad.append("every_input_weakly_dominated")
            break
    if routine == "get_pareto_set":
        if any(V[a] == V[b] for ai, a in enumerate(idx) for b in idx[ai + 1:]):
            bad.append("equal_values_once")
    else:
        for i in range(N):
            dominated = any(dom(V[j], V[i]) and V[j] != V[i] for j in range(N) if j != i)
            if (i in idx) == dominated:
                bad.append("all_copies_kept_iff_nondominated")
                break
    return bad


def replay(case):
    vo, oc = _mods()
    W = np.array(case["W"], dtype=float)
    V = [[Fraction(x) for x in row] for row in from_frac_json(case["V"])]
    Vf = np.array([[float(x) for x in row] for row in V])
    Vex = [[Fraction(float(x)) for x in row] for row in Vf]
    order = make_order(W)
    if case["routine"] == "get_pareto_set_naive":
        close = lambda a, b: all(abs(x - y) <= ATOL + RTOL * abs(y) for x, y in zip(a, b))  # noqa
        for i in range(len(Vex)):
            for j in range(len(Vex)):
                if i != j and Vex[i] != Vex[j] and close(Vex[i], Vex[j]):
                    return {"reproduced": False, "detail": "concrete vectors fall in numpy.allclose's "
                            "tolerance band, which the claim excludes"}
    try:
        idx = [int(i) for i in getattr(order, case["routine"])(Vf)]
    except Exception as ex:  # noqa
        return {"reproduced": True, "detail": "real routine raised " + repr(ex)}
    bad = _exact_check(W, Vex, idx, case["routine"])
    return {"reproduced": bool(bad), "detail": f"real {case['routine']} returned {idx}; violated: {bad}",
            "violated": bad}


def _validate(W, routine, N, n, r):
    """concrete lattice inputs (duplicates and chains frequent) through the real routine and the
    exact oracle"""
    rng = np.random.RandomState(11)
    order = make_order(W)
    m = W.shape[1]
    ok = 0
    for _ in range(n):
        V = rng.randint(-2, 3, size=(N + 2, m)).astype(float) / 2
        if not _off_boundary(W, V):
            continue  # rounding in x @ W.T could decide a tie either way: outside the claim
        idx = [int(i) for i in getattr(order, routine)(V)]
        bad = _exact_check(W, [[Fraction(float(x)) for x in row] for row in V], idx, routine)
        if bad:
            r["violations"].append({"obligation": "concrete validation: " + ",".join(bad), "reproduced": True,
                                    "case": {"cone": "validation", "W": np.asarray(W).tolist(), "routine": routine,
                                             "V": frac_json([[Fraction(float(x)) for x in row] for row in V])},
                                    "replay_detail": f"{routine} -> {idx} violates {bad}",
                                    "features": {"routine": routine, "source": "concrete_validation"}})
        else:
            ok += 1
    return ok


def _off_boundary(W, V):
    """True when no facet margin between two sample vectors is a near-tie that binary64 rounding
    could flip (exact ties are fine when W is dyadic, e.g. the orthant)"""
    dyadic = np.all(np.asarray(W) * 8 == np.round(np.asarray(W) * 8))
    Wf = [[Fraction(float(w)) for w in row] for row in W]
    for i in range(len(V)):
        for j in range(len(V)):
            for row in Wf:
                mg = sum(w * (Fraction(float(a)) - Fraction(float(b))) for w, a, b in zip(row, V[i], V[j]))
                if abs(mg) < Fraction(1, 10**9) and not (dyadic and mg == 0):
                    if any(V[i][k] != V[j][k] for k in range(len(V[i]))):
                        return False
    return True


def tasks(tier, seed):
    ts = []
    cones = cone_set(tier, seed=seed)
    for cone, W in cones:
        m = W.shape[1]
        K = W.shape[0]
        for routine in ("get_pareto_set", "get_pareto_set_naive"):
            if tier == "quick":
                N = 4 if (m == 2 and cone in ("orthant2", "theta60", "theta120")) else 3
            else:
                N = 5 if (m == 2 and cone in ("orthant2", "theta60", "theta120")
                          and routine == "get_pareto_set") else 4
                if m == 3 and K > 3:
                    N = 3
            ts.append({"id": f"{routine}[{cone},N={N}]", "fn": "pareto_task",
                       "args": {"cone": cone, "W": W.tolist(), "N": N, "routine": routine, "tier": tier},
                       "weight": (10 ** (N - 3)) * (3 if m == 3 else 1)})
    return ts


def meta(tier):
    vo, oc = _mods()
    return {
        "level": "model_checking",
        "functions": src_info(vo.PolyhedralConeOrder.get_pareto_set,
                              vo.PolyhedralConeOrder.get_pareto_set_naive,
                              vo.PolyhedralConeOrder.dominates, oc.OrderingCone.is_inside),
        "bounds": {"N": "<=4 quick / <=5 thorough", "m": "2..3", "cones": [c for c, _ in cone_set(tier)]},
        "assumptions": ["floats are encoded as exact reals",
                        "naive routine: vectors are either exactly equal or separated by more than "
                        "numpy.allclose's tolerance (the band between is outside the claim)",
                        "cones of the set are pointed (rank m): 'equal value' = mutual domination"],
        "outside": ["N > 5", "rounding in x @ W.T"],
        "explanation": "every order type of N symbolic vectors that the real elimination loop "
                       "distinguishes is one path; per path the concrete returned index list is "
                       "checked against the Pareto specification by z3 (unsat of the negation)",
    }
