"""C16 — EmpiricalMeanVarModel reports per-design running statistics of all samples."""
from __future__ import annotations

import itertools
from fractions import Fraction

import numpy as np
import z3

from symx import sym
from symx.arr import NpProxy, SymArray, symarray
from symx.explore import Explorer, model_value
from symx.harness import frac_json, from_frac_json, patched, src_info, zand, zs
from symx.sym import HarnessError, Sym

PROPERTY = "C16"
OD = 2  # output_dim


def _mod():
    import vopy.models.empirical_mean_var as em
    return em


def histories(D, tier):
    """call skeletons: tuples of ops; ('A', indices, container) | ('U',) | ('C',).  Every history is
    followed by update + predict(all designs).  Index D is out of range."""
    idxs1 = [(i,) for i in range(D + 1)]
    idxs2 = [t for t in itertools.product(range(D + 1), repeat=2)]
    idxs3 = [(0, 0, 0), (0, 1, 0), (1, 0, 1), (D - 1, D - 1, 0), (0, D, 1)]
    batches = idxs1 + idxs2 + (idxs3 if tier != "quick" or D <= 2 else [(0, 0, 0), (0, 1, 0)])
    hs = []
    for b in batches:
        hs.append((("A", b, "list"),))
    for b1 in batches:
        for b2 in (idxs1 + idxs2 if tier != "quick" else idxs1 + [(0, 0), (0, 1), (1, 0), (D - 1, D)]):
            hs.append((("A", b1, "list"), ("A", b2, "list")))
            hs.append((("A", b1, "list"), ("U",), ("A", b2, "list")))
    for b1 in idxs1 + [(0, 1), (0, 0)]:
        for b2 in idxs1 + [(0, 0)]:
            hs.append((("A", b1, "list"), ("C",), ("A", b2, "list")))
            hs.append((("A", b1, "list"), ("U",), ("C",), ("U",), ("A", b2, "list")))
            for b3 in ([(0,), (0, 1)] if tier == "quick" else idxs1 + [(0, 1), (1, 1)]):
                hs.append((("A", b1, "list"), ("A", b2, "list"), ("A", b3, "list")))
    # sets (distinct indices), tuples and numpy index arrays as containers
    for b in [(0,), (0, 1), (1, 0)] + ([(0, 1, 2)] if D >= 3 else []):
        for cont in ("set", "tuple", "ndarray"):
            hs.append((("A", b, cont), ("A", (0,), "list")))
    hs.append(())  # no samples at all
    return hs


def model_task(D, flags, tier, part, nparts):
    em = _mod()
    track_means, track_variances = flags
    proxy = NpProxy()
    ex = Explorer(f"empirical[D={D},means={track_means},vars={track_variances},part={part}]",
                  query_timeout_ms=60000)
    hs = [h for i, h in enumerate(histories(D, tier)) if i % nparts == part]
    allX = np.array([[0.0, float(i)] for i in range(D)])
    state = {"h": None}

    def body(ctx):
        h = state["h"]
        nv = ctx.real("noise_var")
        ctx.assume(nv > 0)
        model = em.EmpiricalMeanVarModel(input_dim=1, output_dim=OD, noise_var=nv, design_count=D,
                                         track_means=track_means, track_variances=track_variances)
        acc = [[] for _ in range(D)]  # independent accumulator: per-design list of value terms
        used = []
        for k, op in enumerate(h):
            if op[0] == "A":
                idx = op[1]
                Y = ctx.reals(f"y{k}", len(idx), OD)
                used.append(Y)
                cont = {"list": list, "set": set, "tuple": tuple,
                        "ndarray": lambda t: np.array(t, dtype=int)}[op[2]](idx)
                before = [len(d) for d in model.design_samples]
                try:
                    model.add_sample(cont, Y)
                    raised = False
                except ValueError:
                    raised = True
                except Exception as exc:  # noqa  any other exception is a violation in itself
                    _cand(ex, ctx, f"add_sample raised {type(exc).__name__}", h, D, flags, used, nv)
                    return
                expect = max(idx) >= D
                if raised != expect:
                    _cand(ex, ctx, "out_of_range⇔ValueError", h, D, flags, used, nv)
                    return
                if raised:
                    if [len(d) for d in model.design_samples] != before:
                        _cand(ex, ctx, "rejected batch leaves the store unchanged", h, D, flags, used, nv)
                        return
                    continue
                for i, yrow in zip(cont, Y.view(np.ndarray)):
                    acc[int(i)].append([sym.to_z3(v) for v in yrow])
            elif op[0] == "U":
                model.update()
            elif op[0] == "C":
                model.clear_data()
                acc = [[] for _ in range(D)]
        model.update()
        means, variances = model.predict(allX)
        ctx.witness("predict")
        if np.shape(means) != (D, OD) or np.shape(variances) != (D, OD, OD):
            _cand(ex, ctx, "shapes (D,m),(D,m,m)", h, D, flags, used, nv)
            return
        mz = [[sym.to_z3(v) for v in row] for row in np.asarray(means, dtype=object)]
        vz = [[[sym.to_z3(v) for v in r] for r in mat] for mat in np.asarray(variances, dtype=object)]
        claims = []
        for i in range(D):
            n = len(acc[i])
            for k in range(OD):
                sx = sum((r[k] for r in acc[i]), sym.rv(0))
                sxx = sum((r[k] * r[k] for r in acc[i]), sym.rv(0))
                if not track_means:
                    claims.append(mz[i][k] == 0)
                elif n == 0:
                    claims.append(mz[i][k] == 0)
                else:
                    claims.append(mz[i][k] * n == sx)
                for l in range(OD):
                    if not track_variances:
                        claims.append(vz[i][k][l] == (1 if k == l else 0))
                    elif k != l:
                        claims.append(vz[i][k][l] == 0)
                    elif n >= 2:
                        claims.append(vz[i][k][k] * (n * n) == n * sxx - sx * sx)
                    else:
                        claims.append(vz[i][k][k] == nv.e)
        mdl = ctx.prove("predict == running statistics of all samples", zand(claims))
        if mdl is not None:
            _cand(ex, ctx, "predict == running statistics of all samples", h, D, flags, used, nv, mdl)
            return
        ctx.sample({"history": _hjson(h), "D": D, "track": list(flags),
                    "counts": [len(a) for a in acc]})

    with patched((em, {"np": proxy})):
        for h in hs:
            state["h"] = h
            ex.run(body)
    ex.finalize(replay)
    r = ex.result()
    r["config"] = {"design_count": D, "output_dim": OD, "track_means": track_means,
                   "track_variances": track_variances, "histories": len(hs)}
    r["concrete_validations"] = _validate(D, flags, hs[:: max(1, len(hs) // (10 if tier == "quick" else 60))], r)
    return r


def _hjson(h):
    return [[op[0], list(op[1]), op[2]] if op[0] == "A" else [op[0]] for op in h]


def _cand(ex, ctx, name, h, D, flags, used, nv, mdl=None):
    if mdl is None:
        mdl = ctx.satisfiable()
        if mdl is None:
            return
    ys = [[[model_value(mdl, sym.to_z3(v)) for v in row] for row in Y.view(np.ndarray)] for Y in used]
    ex.candidate(name, {"history": _hjson(h), "D": D, "flags": list(flags), "Y": frac_json(ys),
                        "noise_var": frac_json(model_value(mdl, nv.e))},
                 {"claim": name, "D": D, "track_means": flags[0], "track_variances": flags[1]})


def _run_concrete(em, D, flags, h, ys, nv):
    """real class on concrete data + exact rational oracle; returns (ok, detail)"""
    model = em.EmpiricalMeanVarModel(1, OD, nv, D, track_means=flags[0], track_variances=flags[1])
    acc = [[] for _ in range(D)]
    yi = 0
    for op in h:
        if op[0] == "A":
            idx = tuple(op[1])
            Y = np.array([[float(v) for v in row] for row in ys[yi]]).reshape(len(idx), OD)
            yi += 1
            cont = {"list": list, "set": set, "tuple": tuple, "ndarray": lambda t: np.array(t, dtype=int)}[op[2]](idx)
            before = [d.copy() for d in model.design_samples]
            try:
                model.add_sample(cont, Y)
                raised = False
            except ValueError:
                raised = True
            except Exception as exc:  # noqa
                return False, f"add_sample({idx}) raised {exc!r}"
            if raised != (max(idx) >= D):
                return False, f"add_sample({idx}) raised={raised}"
            if raised:
                if any(len(a) != len(b) for a, b in zip(before, model.design_samples)):
                    return False, "rejected batch changed the store"
                continue
            for i, row in zip(cont, Y):
                acc[int(i)].append([Fraction(float(v)) for v in row])
        elif op[0] == "U":
            model.update()
        else:
            model.clear_data()
            acc = [[] for _ in range(D)]
    model.update()
    means, variances = model.predict(np.array([[0.0, float(i)] for i in range(D)]))
    if np.shape(means) != (D, OD) or np.shape(variances) != (D, OD, OD):
        return False, f"shapes {np.shape(means)} {np.shape(variances)}"
    for i in range(D):
        n = len(acc[i])
        for k in range(OD):
            sx = sum(r[k] for r in acc[i])
            sxx = sum(r[k] * r[k] for r in acc[i])
            want_m = 0.0 if (not flags[0] or n == 0) else float(sx / n)
            if abs(means[i][k] - want_m) > 1e-9 * (1 + abs(want_m)):
                return False, f"mean[{i}][{k}]={means[i][k]} want {want_m}"
            for l in range(OD):
                if not flags[1]:
                    want = 1.0 if k == l else 0.0
                elif k != l:
                    want = 0.0
                elif n >= 2:
                    want = float((n * sxx - sx * sx) / (n * n))
                    if abs(variances[i][k][l] - want) > 1e-6 * (1e-9 + abs(want)) + 1e-12:
                        return False, f"var[{i}][{k}][{l}]={variances[i][k][l]} want {want} (population variance of the samples)"
                else:
                    want = float(nv)
                if abs(variances[i][k][l] - want) > 1e-9 * (1 + abs(want)):
                    return False, f"var[{i}][{k}][{l}]={variances[i][k][l]} want {want}"
    return True, "agrees"


def replay(case):
    em = _mod()
    h = [tuple([op[0], tuple(op[1]), op[2]]) if op[0] == "A" else (op[0],) for op in case["history"]]
    ys = [[[Fraction(v) for v in row] for row in Y] for Y in from_frac_json(case["Y"])]
    nv = float(Fraction(from_frac_json(case["noise_var"])))
    try:
        ok, detail = _run_concrete(em, case["D"], tuple(case["flags"]), h, ys, nv)
    except Exception as ex:  # noqa
        return {"reproduced": True, "detail": "real model raised " + repr(ex)}
    return {"reproduced": not ok, "detail": detail}


def _validate(D, flags, hs, r):
    em = _mod()
    rng = np.random.RandomState(5)
    n = 0
    for hi, h in enumerate(hs):
        # every other skeleton is replayed with samples at a large level relative to their spread (1e7 ± 1): the
        # reported statistics must still be the population mean/variance (numerically stable accumulation)
        off = 1.0e7 if hi % 2 else 0.0
        ys = [off + np.round(rng.uniform(-3, 3, size=(len(op[1]), OD)) * 8) / 8 for op in h if op[0] == "A"]
        ok, detail = _run_concrete(em, D, flags, h, [[[Fraction(float(v)) for v in row] for row in Y] for Y in ys], 0.25)
        if not ok:
            r["violations"].append({"obligation": "concrete validation", "reproduced": True, "replay_detail": detail,
                                    "case": {"history": _hjson(h), "D": D, "flags": list(flags), "noise_var": "1/4",
                                             "Y": frac_json([[[Fraction(float(v)) for v in row] for row in Y] for Y in ys])},
                                    "features": {"source": "concrete_validation", "D": D}})
        n += 1
    return n


def tasks(tier, seed):
    ts = []
    for D in ((2, 3) if tier == "quick" else (1, 2, 3)):
        for flags in ((True, True), (True, False), (False, True), (False, False)):
            nparts = 2 if tier == "quick" else 4
            if flags != (True, True):
                nparts = 1
            for part in range(nparts):
                ts.append({"id": f"empirical[D={D},track={flags},part={part}]", "fn": "model_task",
                           "args": {"D": D, "flags": list(flags), "tier": tier, "part": part, "nparts": nparts},
                           "weight": D})
    return ts


def meta(tier):
    em = _mod()
    c = em.EmpiricalMeanVarModel
    return {
        "level": "model_checking",
        "functions": src_info(c.__init__, c.add_sample, c.clear_data, c.update, c.predict),
        "bounds": {"design_count": "<=3", "output_dim": 2, "history": "<=3 add_sample batches of <=3 rows, "
                   "update/clear interleaved (enumerated call skeletons incl. out-of-range index = design_count, "
                   "repeated indices, list/set/tuple/ndarray containers)", "track flags": "all 4 combinations"},
        "assumptions": ["floats are encoded as exact reals (accumulation rounding over thousands of rounds is outside)",
                        "negative indices are excluded (the property is silent about them)",
                        "the discrete skeleton (which design each row goes to) is enumerated; the sample values and "
                        "the noise variance are symbolic reals"],
        "explanation": "each call skeleton is executed on the real class with symbolic sample values; the returned "
                       "means/variances are proved equal (z3, polynomial identities) to an independent accumulator",
    }
