"""C20 — problems return the nearest design's value plus configured noise; decoupled evaluation;
input immutability; normalise/unnormalise inverses."""
from __future__ import annotations

import itertools
from fractions import Fraction

import numpy as np
import z3

from symx import sym
from symx.arr import NpProxy, SymArray, symarray
from symx.explore import Explorer, model_value
from symx.harness import frac_json, from_frac_json, patched, src_info, zand, zor, zs
from symx.sym import HarnessError, Special, Sym

PROPERTY = "C20"


def _mods():
    import vopy.maximization_problem as mp
    import vopy.utils.utils as uu
    return mp, uu


def euclid_stub(X, Y=None, squared=False, **kw):
    """exact (squared) Euclidean distances on symbolic points (contract of sklearn's function)"""
    X = np.asarray(X, dtype=object)
    Y = X if Y is None else np.asarray(Y, dtype=object)
    out = np.empty((len(X), len(Y)), dtype=object)
    for i in range(len(X)):
        for j in range(len(Y)):
            acc = Sym(sym.rv(0))
            for k in range(X.shape[1]):
                d = Sym.of(X[i, k]) - Sym.of(Y[j, k])
                acc = acc + d * d
            out[i, j] = acc if squared else sym._ctx().sqrt_of(z3.simplify(acc.e), nonneg=True)
    return out.view(SymArray)


def chol_stub(ctx):
    def chol(a):
        a = np.asarray(a, dtype=object)
        n = a.shape[0]
        L = np.empty((n, n), dtype=object)
        for i in range(n):
            for j in range(n):
                if j > i:
                    L[i, j] = Sym(sym.rv(0))
                else:
                    L[i, j] = Sym(ctx.fresh(f"L{i}{j}"))
                    if i == j:
                        ctx.fact(L[i, j].e > 0)
        for i in range(n):
            for j in range(i + 1):
                ctx.fact(sum((L[i, k].e * L[j, k].e for k in range(j + 1)), sym.rv(0)) == sym.to_z3(a[i, j]))
        return L.view(SymArray)
    return chol


class DatasetStub:
    def __init__(self, in_data, out_data):
        self.in_data, self.out_data = in_data, out_data
        self.in_dim, self.out_dim = in_data.shape[1], out_data.shape[1]
        self._cardinality = len(in_data)


def _terms_equal(a, b):
    a, b = np.asarray(a, dtype=object), np.asarray(b, dtype=object)
    if a.shape != b.shape:
        return z3.BoolVal(False)
    return zand([sym.to_z3(x) == sym.to_z3(y) for x, y in zip(a.ravel(), b.ravel())])


def _unchanged(arr, snapshot):
    """caller's array still holds the identical element objects"""
    return all(x is y for x, y in zip(np.asarray(arr, dtype=object).ravel(), snapshot))


# ------------------------------------------------------------------------------------------
def lookup_task(N, d, B, m, tier):
    mp, uu = _mods()
    ex = Explorer(f"dataset_lookup[N={N},d={d},B={B}]", query_timeout_ms=60000)

    def body(ctx):
        proxy = NpProxy(hooks={"cholesky": chol_stub(ctx)})
        ins, outs = ctx.reals("x", N, d), ctx.reals("f", N, m)
        nv = ctx.real("noise_var")
        ctx.assume(nv > 0)
        with patched((mp, {"np": proxy}), (uu, {"np": proxy, "euclidean_distances": euclid_stub})):
            prob = mp.ProblemFromDataset(DatasetStub(ins, outs), nv)
            q = ctx.reals("q", B, d) if B > 0 else ctx.reals("q", d)
            snap = list(q.view(np.ndarray).ravel())
            y = prob.evaluate(q, noisy=False)
            ok_imm = _unchanged(q, snap)
            # public helper, with distances, squared and not
            qq = q if B > 0 else q.reshape(1, -1)
            idx2, dist2 = uu.get_closest_indices_from_points(qq, ins, return_distances=True, squared=True)
            if d == 1 and N <= 3:  # non-squared distances introduce sqrt variables: NRA stays cheap only for d = 1, N ≤ 3
                idx1, dist1 = uu.get_closest_indices_from_points(qq, ins, return_distances=True, squared=False)
            else:
                idx1, dist1 = idx2, None
        nq = max(B, 1)
        if np.shape(y) != (nq, m):
            mdl = ctx.satisfiable()
            ex.candidate("shape (len(x), m)", {"kind": "lookup", "detail": f"shape {np.shape(y)}"}, {"N": N})
            return
        qz = zs(qq)
        iz = zs(ins)
        dist = lambda r, j: sum(((qz[r][k] - iz[j][k]) * (qz[r][k] - iz[j][k]) for k in range(d)), sym.rv(0))  # noqa
        ctx.witness("idx=" + ",".join(map(str, idx2)))
        claims = {"input array not modified": z3.BoolVal(ok_imm)}
        near, first, rows = [], [], []
        for r in range(nq):
            cands = []
            for j in range(N):
                cands.append(z3.And(zand([dist(r, j) <= dist(r, l) for l in range(N)]),
                                    _terms_equal(y[r], outs[j])))
            near.append(zor(cands))
            i_ = int(idx2[r])
            first.append(zand([dist(r, l) > dist(r, i_) for l in range(i_)] +
                              [dist(r, l) >= dist(r, i_) for l in range(N)]))
            rows.append(z3.And(sym.to_z3(dist2[r]) == dist(r, i_), int(idx1[r]) == i_))
            if dist1 is not None:
                rows.append(z3.And(sym.to_z3(dist1[r]) * sym.to_z3(dist1[r]) == dist(r, i_),
                                   sym.to_z3(dist1[r]) >= 0))
        claims["row r = output of a nearest design"] = zand(near)
        claims["helper: first nearest index"] = zand(first)
        claims["helper: returned distances (squared / not)"] = zand(rows)
        for name, cl in claims.items():
            mdl = ctx.prove(name, cl)
            if mdl is not None:
                ex.candidate(name, {"kind": "lookup", "in": frac_json([[model_value(mdl, e) for e in r_] for r_ in iz]),
                                    "out": frac_json([[model_value(mdl, e) for e in r_] for r_ in zs(outs)]),
                                    "q": frac_json([[model_value(mdl, e) for e in r_] for r_ in qz]),
                                    "one_d": B == 0}, {"claim": name})
                return
        ctx.sample({"N": N, "d": d, "B": B, "nearest": [int(i) for i in idx2]})

    ex.run(body)
    ex.finalize(replay)
    r = ex.result()
    r["config"] = {"N": N, "d": d, "B": B, "m": m}
    return r


def noise_task(kind, n, m, tier):
    """noise law decided through linearity: y − f = X·A with A extracted by substitution of unit
    X's; AᵀA must equal the configured covariance; each row uses its own independent X row"""
    mp, uu = _mods()
    ex = Explorer(f"noise_law[{kind},n={n},m={m}]", query_timeout_ms=120000)

    def body(ctx):
        Xs = []

        def normal(loc=0.0, scale=1.0, size=None):
            if loc != 0.0 or scale != 1.0 or size is None:
                raise HarnessError("np.random.normal called with unexpected arguments")
            if isinstance(size, (int, np.integer)):
                size = (int(size),)
            X = ctx.reals(f"X{len(Xs)}", *size)
            Xs.append(X)
            return X
        proxy = NpProxy(hooks={"cholesky": chol_stub(ctx), "random.normal": normal})
        nv = ctx.real("noise_var")
        ctx.assume(nv > 0)
        f = ctx.reals("f", n, m)
        with patched((mp, {"np": proxy}), (uu, {"np": proxy, "euclidean_distances": euclid_stub})):
            if kind == "dataset":
                ins = symarray([[Fraction(i)] for i in range(n)])
                prob = mp.ProblemFromDataset(DatasetStub(ins, f), nv)
                y = prob.evaluate(ins, noisy=True)
                Sigma = [[nv.e if a == b else sym.rv(0) for b in range(m)] for a in range(m)]
            elif kind == "continuous":
                class P(mp.ContinuousProblem):
                    out_dim = m

                    def evaluate_true(self, x):
                        return f
                prob = P(nv)
                y = prob.evaluate(symarray([[Fraction(i), Fraction(1)] for i in range(n)]), noisy=True)
                Sigma = [[nv.e if a == b else sym.rv(0) for b in range(m)] for a in range(m)]
            else:  # public helper with a diagonal symbolic factor
                dg = ctx.reals("chol", m)
                ctx.assume(dg > 0)
                chol = symarray([[dg.view(np.ndarray)[a] if a == b else Sym(sym.rv(0)) for b in range(m)]
                                 for a in range(m)])
                y = uu.get_noisy_evaluations_chol(f, chol)
                Sigma = [[(dg.view(np.ndarray)[a] * dg.view(np.ndarray)[a]).e if a == b else sym.rv(0)
                          for b in range(m)] for a in range(m)]
        ctx.witness("noisy")
        if len(Xs) != 1 or np.shape(y) != (n, m):
            ex.candidate("one normal draw of shape (n, m)", {"kind": "noise", "detail":
                         f"{len(Xs)} draws, y shape {np.shape(y)}"}, {"kind": kind})
            return
        X = Xs[0]
        xz = zs(X)
        if np.shape(X) != (n, m):
            ex.candidate("normal draw has shape (n, m)", {"kind": "noise", "detail": str(np.shape(X))}, {"kind": kind})
            return
        allx = [v for row in xz for v in row]
        noise = [[sym.to_z3(y[r][k]) - sym.to_z3(f[r][k]) for k in range(m)] for r in range(n)]

        def coeff(expr, var):
            sub1 = [(v, z3.RealVal(1) if v.eq(var) else z3.RealVal(0)) for v in allx]
            sub0 = [(v, z3.RealVal(0)) for v in allx]
            return z3.simplify(z3.substitute(expr, *sub1) - z3.substitute(expr, *sub0))
        A = [[[coeff(noise[r][k], xz[r][j]) for k in range(m)] for j in range(m)] for r in range(n)]
        claims = {}
        claims["noise linear in own X row: y−f = X_r·A"] = zand(
            [noise[r][k] == sum((xz[r][j] * A[r][j][k] for j in range(m)), sym.rv(0))
             for r in range(n) for k in range(m)])
        claims["same A for every row"] = zand([A[r][j][k] == A[0][j][k] for r in range(n)
                                               for j in range(m) for k in range(m)])
        claims["AᵀA = configured covariance"] = zand(
            [sum((A[0][j][a] * A[0][j][b] for j in range(m)), sym.rv(0)) == Sigma[a][b]
             for a in range(m) for b in range(m)])
        for name, cl in claims.items():
            mdl = ctx.prove(name, cl)
            if mdl is not None:
                ex.candidate(name, {"kind": "noise", "problem": kind, "n": n, "m": m,
                                    "noise_var": frac_json(model_value(mdl, nv.e))}, {"claim": name, "kind": kind})
                return
        ctx.sample({"kind": kind, "A": [[str(z3.simplify(e))[:60] for e in row] for row in A[0]]})

    ex.run(body)
    ex.finalize(replay)
    r = ex.result()
    r["config"] = {"kind": kind, "n": n, "m": m}
    return r


def decoupled_task(n, m, tier):
    mp, uu = _mods()
    ex = Explorer(f"decoupled[n={n},m={m}]", query_timeout_ms=30000)
    forms = [None] + list(range(m)) + [list(t) for t in itertools.product(range(m), repeat=n)] + \
        [[0] * (n + 1)]
    state = {}

    def body(ctx):
        form = state["form"]
        vals = ctx.reals("v", n, m)
        calls = []

        class Rec(mp.Problem):
            def evaluate(self, x, **kw):
                calls.append((x, kw))
                return vals
        x = ctx.reals("x", n, 2)
        snap = list(x.view(np.ndarray).ravel())
        prob = mp.DecoupledEvaluationProblem(Rec())
        try:
            out = prob.evaluate(x, form) if form is not None else prob.evaluate(x)
            raised = False
        except ValueError:
            raised = True
        expect_raise = isinstance(form, list) and len(form) != n
        ctx.witness("raised" if raised else "ok")
        ok = raised == expect_raise
        if ok and not raised:
            ok = len(calls) == 1 and calls[0][0] is x and _unchanged(x, snap)
            vv = vals.view(np.ndarray)
            if form is None:
                want = vv
            elif isinstance(form, int):
                want = vv[:, form]
            else:
                want = np.array([vv[r, form[r]] for r in range(n)], dtype=object)
            o = np.asarray(out, dtype=object)
            ok = ok and o.shape == want.shape and all(a is b for a, b in zip(o.ravel(), want.ravel()))
        if ok and raised:
            ok = len(calls) == 0
        mdl = ctx.prove("requested components of the same single underlying evaluation", z3.BoolVal(bool(ok)))
        if mdl is not None:
            ex.candidate("decoupled", {"kind": "decoupled", "n": n, "m": m, "form": form}, {"form": str(form)})
            return
        ctx.sample({"form": form, "n": n, "m": m})

    for form in forms:
        state["form"] = form
        ex.run(body)
    ex.finalize(replay)
    r = ex.result()
    r["config"] = {"n": n, "m": m, "forms": len(forms)}
    return r


def immut_task(tier):
    """evaluation never modifies the caller's input array: BraninCurrin (both branches of the
    x_1 == 0 special case), ContinuousProblem, ProblemFromDataset (1-D and 2-D inputs)"""
    mp, uu = _mods()
    ex = Explorer("input_immutability[BraninCurrin]", query_timeout_ms=30000)
    uf = {n: z3.Function(n, z3.RealSort(), z3.RealSort()) for n in ("exp", "cos")}

    def body(ctx):
        def ufun(name):
            def f(x):
                if isinstance(x, np.ndarray):
                    o = np.empty(x.shape, dtype=object)
                    for i in np.ndindex(*x.shape):
                        o[i] = f(np.asarray(x, dtype=object)[i])
                    return o.view(SymArray)
                if isinstance(x, Special):
                    return Sym(ctx.fresh(name + "_special"))
                return Sym(uf[name](sym.to_z3(x)))
            return f

        def power(x, k):
            return x ** k
        proxy = NpProxy(hooks={"exp": ufun("exp"), "cos": ufun("cos"), "power": power,
                               "cholesky": lambda a: np.linalg.cholesky(np.asarray(a, dtype=float))})
        n = 2
        x = ctx.reals("x", n, 2)
        ctx.assume([x >= 0, x <= 1])
        snap = list(x.view(np.ndarray).ravel())
        snapz = [sym.to_z3(v) for v in snap]
        with patched((mp, {"np": proxy})):
            prob = mp.BraninCurrin(0.01)
            y = prob.evaluate(x, noisy=False)
        after = [sym.to_z3(v) for v in x.view(np.ndarray).ravel()]
        zero_branch = any("x_0_1 ==" in str(c) or "x_1_1 ==" in str(c) or "== x_" in str(c) for c in ctx.pathcond)
        ctx.witness("x1==0 somewhere" if ctx.satisfiable(z3.Or(snapz[1] == 0, snapz[3] == 0)) is not None else "x1!=0")
        mdl = ctx.prove("input array holds the same values after evaluate",
                        zand([a == b for a, b in zip(after, snapz)]))
        if mdl is not None:
            ex.candidate("input immutability", {"kind": "immut", "problem": "BraninCurrin",
                                                "x": frac_json([[model_value(mdl, snapz[2 * r + c]) for c in range(2)]
                                                                for r in range(n)])}, {"problem": "BraninCurrin"})
            return
        if np.shape(y) != (n, 2):
            ex.candidate("shape", {"kind": "immut", "problem": "BraninCurrin", "x": [[0.5, 0.5]] * n}, {})
        ctx.sample({"problem": "BraninCurrin", "decisions": len(ctx.decisions)})

    ex.run(body)
    ex.finalize(replay)
    r = ex.result()
    r["config"] = {"problem": "BraninCurrin", "batch": 2}
    return r


def normalize_task(n, d, tier):
    mp, uu = _mods()
    ex = Explorer(f"normalize[n={n},d={d}]", query_timeout_ms=60000)

    def body(ctx):
        proxy = NpProxy()
        data = ctx.reals("x", n, d)
        lo, hi = ctx.reals("lo", d), ctx.reals("hi", d)
        ctx.assume(lo != hi)
        bounds = [(lo.view(np.ndarray)[i], hi.view(np.ndarray)[i]) for i in range(d)]
        snap = list(data.view(np.ndarray).ravel())
        with patched((uu, {"np": proxy})):
            a = uu.unnormalize(uu.normalize(data, bounds), bounds)
            b = uu.normalize(uu.unnormalize(data, bounds), bounds)
            guards = []
            for f in (uu.normalize, uu.unnormalize):
                try:
                    f(data, bounds[:-1] if d > 1 else bounds + bounds)
                    guards.append(False)
                except ValueError:
                    guards.append(True)
        ctx.witness("ok")
        claims = {"unnormalize∘normalize = id": _terms_equal(a, data),
                  "normalize∘unnormalize = id": _terms_equal(b, data),
                  "length guard raises ValueError": z3.BoolVal(all(guards)),
                  "input not modified": z3.BoolVal(_unchanged(data, snap))}
        for name, cl in claims.items():
            mdl = ctx.prove(name, cl)
            if mdl is not None:
                ex.candidate(name, {"kind": "normalize", "x": frac_json([[model_value(mdl, e) for e in r_] for r_ in zs(data)]),
                                    "lo": frac_json([model_value(mdl, e) for e in zs(lo)]),
                                    "hi": frac_json([model_value(mdl, e) for e in zs(hi)])}, {"claim": name})
                return
        ctx.sample({"n": n, "d": d})

    ex.run(body)
    ex.finalize(replay)
    r = ex.result()
    r["config"] = {"n": n, "d": d}
    return r


def datasets_task(tier):
    """bundled datasets: inputs in [0,1] (min 0 / max 1 per non-constant column), objectives zero
    mean / unit variance, declared sizes — a concrete computation (nothing to quantify over)"""
    from vopy.datasets import dataset as dmod
    out = {"harness": "bundled_datasets", "paths": 0, "transitions": 0, "queries": {}, "solver_s": 0.0,
           "violations": [], "inconclusive": [], "obligations": {}, "samples": [], "recorded": []}
    names = [n for n, c in vars(dmod).items() if isinstance(c, type) and issubclass(c, dmod.Dataset)
             and c is not dmod.Dataset]
    for name in names:
        case = {"kind": "dataset", "name": name}
        rep = _replay_dataset(case)
        out["paths"] += 1
        out["recorded"].append({"dataset": name, "detail": rep["detail"]})
        if rep["reproduced"]:
            out["violations"].append({"obligation": "dataset scaling and declared sizes", "case": case,
                                      "reproduced": True, "replay_detail": rep["detail"], "features": {"dataset": name}})
    out["transitions"] = out["paths"]
    out["concrete_validations"] = out["paths"]
    out["samples"] = out["recorded"][:2]
    return out


def _replay_dataset(case):
    from vopy.datasets import get_dataset_instance
    try:
        ds_ = get_dataset_instance(case["name"])
    except Exception as ex:  # noqa
        return {"reproduced": True, "detail": f"loading {case['name']} raised {ex!r}"}
    X, Y = ds_.in_data, ds_.out_data
    probs = []
    if X.shape != (ds_._cardinality, ds_._in_dim) or Y.shape != (ds_._cardinality, ds_._out_dim):
        probs.append(f"declared sizes ({ds_._cardinality},{ds_._in_dim},{ds_._out_dim}) vs {X.shape} {Y.shape}")
    if ds_.in_dim != X.shape[1] or ds_.out_dim != Y.shape[1]:
        probs.append("in_dim/out_dim attributes")
    if X.min() < -1e-9 or X.max() > 1 + 1e-9:
        probs.append(f"inputs outside [0,1]: [{X.min()},{X.max()}]")
    for c in range(X.shape[1]):
        col = X[:, c]
        if col.max() - col.min() > 0 and (abs(col.min()) > 1e-9 or abs(col.max() - 1) > 1e-9):
            probs.append(f"input column {c} not min-max scaled")
    if np.abs(Y.mean(axis=0)).max() > 1e-8 or np.abs(Y.std(axis=0) - 1).max() > 1e-8:
        probs.append(f"objectives not standardised: mean {Y.mean(axis=0)}, std {Y.std(axis=0)}")
    return {"reproduced": bool(probs), "detail": "; ".join(probs) or f"{case['name']}: {X.shape}/{Y.shape} scaled ok"}


# ------------------------------------------------------------------------------------------
def replay(case):
    mp, uu = _mods()
    k = case["kind"]
    if k == "dataset":
        return _replay_dataset(case)
    if k == "immut":
        x = np.array([[float(Fraction(v)) for v in row] for row in from_frac_json(case["x"])])
        x0 = x.copy()
        prob = mp.BraninCurrin(0.01)
        prob.evaluate(x, noisy=False)
        return {"reproduced": not np.array_equal(x, x0), "detail": f"input before {x0.tolist()} after {x.tolist()}"}
    if k == "lookup":
        if "in" not in case:
            return {"reproduced": True, "detail": case.get("detail")}
        F = lambda a: np.array([[float(Fraction(v)) for v in row] for row in from_frac_json(a)])  # noqa
        ins, outs, q = F(case["in"]), F(case["out"]), F(case["q"])
        prob = mp.ProblemFromDataset(DatasetStub(ins, outs), 0.01)
        qq = q[0] if case.get("one_d") else q
        q0 = qq.copy()
        y = prob.evaluate(qq, noisy=False)
        bad = not np.array_equal(qq, q0) or np.shape(y) != (len(q), outs.shape[1])
        for r in range(len(q)):
            d2 = [sum((Fraction(float(a)) - Fraction(float(b))) ** 2 for a, b in zip(q[r], ins[j])) for j in range(len(ins))]
            best = [j for j in range(len(ins)) if d2[j] == min(d2)]
            srt = sorted(d2)
            if len(srt) > 1 and 0 < srt[1] - srt[0] < Fraction(1, 10**9):
                return {"reproduced": False, "detail": "near-tie: sklearn's expanded-form rounding decides (outside)"}
            if not bad and not any(np.array_equal(y[r], outs[j]) for j in best):
                bad = True
        return {"reproduced": bool(bad), "detail": f"evaluate({qq.tolist()}) -> {np.asarray(y).tolist()}"}
    if k == "noise":
        return _replay_noise(case)
    if k == "decoupled":
        n, m, form = case["n"], case["m"], case["form"]
        vals = np.arange(n * m, dtype=float).reshape(n, m) + 1
        calls = []

        class Rec(mp.Problem):
            def evaluate(self, x, **kw):
                calls.append(x)
                return vals
        x = np.zeros((n, 2))
        try:
            out = mp.DecoupledEvaluationProblem(Rec()).evaluate(x, form) if form is not None else \
                mp.DecoupledEvaluationProblem(Rec()).evaluate(x)
            raised = False
        except ValueError:
            raised = True
        exp_raise = isinstance(form, list) and len(form) != n
        if raised != exp_raise:
            return {"reproduced": True, "detail": f"raised={raised}"}
        if raised:
            return {"reproduced": len(calls) != 0, "detail": "raised"}
        want = vals if form is None else vals[:, form] if isinstance(form, int) else \
            np.array([vals[r, form[r]] for r in range(n)])
        return {"reproduced": not (len(calls) == 1 and np.array_equal(out, want)), "detail": f"{out} vs {want}"}
    if k == "normalize":
        F1 = lambda a: np.array([float(Fraction(v)) for v in from_frac_json(a)])  # noqa
        x = np.array([[float(Fraction(v)) for v in row] for row in from_frac_json(case["x"])])
        b = list(zip(F1(case["lo"]), F1(case["hi"])))
        a = uu.unnormalize(uu.normalize(x, b), b)
        c = uu.normalize(uu.unnormalize(x, b), b)
        scale = 1 + np.abs(x).max() + max(abs(v) for p in b for v in p)
        cond = max(scale / abs(h - l) for l, h in b)
        tol = 1e-9 * scale * max(1.0, cond)
        return {"reproduced": bool(np.abs(a - x).max() > tol or np.abs(c - x).max() > tol),
                "detail": f"round-trip errors {np.abs(a - x).max()}, {np.abs(c - x).max()} (tol {tol})"}
    return {"reproduced": False, "detail": "unknown kind"}


def _replay_noise_factor(case):
    """deterministic replay: with the normal draw replaced by unit vectors the real code returns the rows of its noise
    factor A; AᵀA is compared with the configured covariance at the model's noise level and at two small ones"""
    mp, uu = _mods()
    if case.get("problem") not in ("dataset", "continuous"):
        return None
    m = case["m"]
    real_normal = np.random.normal
    worst = (0.0, None)
    try:
        for nv in (float(Fraction(from_frac_json(case["noise_var"]))), 1e-6, 1e-8):
            if not (nv > 0):
                continue
            rows = []
            for j in range(m):
                def fake(loc=0.0, scale=1.0, size=None, j=j):
                    X = np.zeros(size)
                    X[..., j] = 1.0
                    return X
                np.random.normal = fake
                if case["problem"] == "dataset":
                    prob = mp.ProblemFromDataset(DatasetStub(np.zeros((1, 1)), np.zeros((1, m))), nv)
                    y = prob.evaluate(np.zeros((1, 1)), noisy=True)
                else:
                    class P(mp.ContinuousProblem):
                        out_dim = m

                        def evaluate_true(self, x):
                            return np.zeros((len(x), m))
                    y = P(nv).evaluate(np.zeros((1, 2)), noisy=True)
                rows.append(np.asarray(y, dtype=float).reshape(-1))
            Amat = np.array(rows)
            err = float(np.abs(Amat.T @ Amat - np.eye(m) * nv).max() / nv)
            if err > worst[0]:
                worst = (err, nv)
    except Exception as ex:  # noqa
        return {"reproduced": True, "detail": "raised " + repr(ex)}
    finally:
        np.random.normal = real_normal
    return {"reproduced": bool(worst[0] > 1e-9), "detail": f"noise factor A read off the real code with unit draws: AᵀA differs from the "
            f"configured covariance by relative {worst[0]:.3g} at noise_var = {worst[1]}"}


def _replay_noise(case):
    """statistical replay of a refuted noise law: sample covariance of 200k draws vs configured"""
    mp, uu = _mods()
    if "problem" not in case:
        return {"reproduced": True, "detail": case.get("detail")}
    det = _replay_noise_factor(case)
    if det is not None and det["reproduced"]:
        return det
    rng_state = np.random.get_state()
    np.random.seed(12345)
    try:
        m, nv = case["m"], max(float(Fraction(from_frac_json(case["noise_var"]))), 1e-3)
        n = 200000
        f = np.zeros((n, m))
        if case["problem"] == "helper":
            y = uu.get_noisy_evaluations_chol(f, np.eye(m) * np.sqrt(nv))
        elif case["problem"] == "dataset":
            prob = mp.ProblemFromDataset(DatasetStub(np.zeros((1, 1)), np.zeros((1, m))), nv)
            y = prob.evaluate(np.zeros((n, 1)), noisy=True)
        else:
            class P(mp.ContinuousProblem):
                out_dim = m

                def evaluate_true(self, x):
                    return np.zeros((len(x), m))
            y = P(nv).evaluate(np.zeros((n, 2)), noisy=True)
        cov = np.cov(y.T)
        err = np.abs(cov - np.eye(m) * nv).max() / nv
        mean_err = np.abs(y.mean(axis=0)).max() / np.sqrt(nv)
        # independence across the rows of one call: consecutive rows must be uncorrelated
        r0, r1 = y[0::2][: n // 2], y[1::2][: n // 2]
        cross = max(abs(np.corrcoef(r0[:, k], r1[:, k])[0, 1]) for k in range(m))
        return {"reproduced": bool(err > 0.03 or mean_err > 0.02 or cross > 0.03),
                "detail": f"sample covariance rel. error {err:.4f}, mean error {mean_err:.4f}, correlation between the noise of "
                          f"two points of one batch {cross:.3f} (configured var {nv})"}
    finally:
        np.random.set_state(rng_state)


def tasks(tier, seed):
    ts = []
    shapes = [(2, 1, 1), (3, 1, 2), (3, 2, 1), (2, 2, 0)] if tier == "quick" else \
        [(2, 1, 1), (3, 1, 2), (3, 2, 1), (3, 2, 2), (4, 1, 2), (4, 2, 1), (3, 2, 0), (2, 3, 1)]
    for N, d, B in shapes:
        ts.append({"id": f"lookup[N={N},d={d},B={B}]", "fn": "lookup_task",
                   "args": {"N": N, "d": d, "B": B, "m": 2, "tier": tier}, "weight": N * (B + 1) * d})
    for kind in ("dataset", "continuous", "helper"):
        for m in ((2,) if tier == "quick" else (2, 3)):
            ts.append({"id": f"noise[{kind},m={m}]", "fn": "noise_task", "args": {"kind": kind, "n": 2, "m": m, "tier": tier}})
    ts.append({"id": "decoupled[n=2,m=2]", "fn": "decoupled_task", "args": {"n": 2, "m": 2, "tier": tier}})
    if tier != "quick":
        ts.append({"id": "decoupled[n=3,m=3]", "fn": "decoupled_task", "args": {"n": 3, "m": 3, "tier": tier}})
    ts.append({"id": "immutability[BraninCurrin]", "fn": "immut_task", "args": {"tier": tier}})
    ts.append({"id": "normalize[n=2,d=2]", "fn": "normalize_task", "args": {"n": 2, "d": 2, "tier": tier}})
    ts.append({"id": "bundled_datasets", "fn": "datasets_task", "args": {"tier": tier}})
    return ts


def meta(tier):
    mp, uu = _mods()
    return {
        "level": "model_checking",
        "functions": src_info(mp.ProblemFromDataset.__init__, mp.ProblemFromDataset.evaluate,
                              mp.ContinuousProblem.__init__, mp.ContinuousProblem.evaluate,
                              mp.BraninCurrin.evaluate_true, mp.BraninCurrin._branin, mp.BraninCurrin._currin,
                              mp.DecoupledEvaluationProblem.evaluate, uu.get_closest_indices_from_points,
                              uu.get_noisy_evaluations_chol, uu.normalize, uu.unnormalize),
        "bounds": {"designs": "<=3 (4 thorough)", "input dim": "<=2 (3)", "query batch": "<=2 and the 1-D form",
                   "objectives": "2 (3)", "evaluation_index": "None / every int / every list of length n / wrong length"},
        "stubs": ["sklearn euclidean_distances: exact (squared) distances; non-squared via sqrt variable",
                  "np.linalg.cholesky: lower-triangular L, positive diagonal, L·Lᵀ = Σ",
                  "np.random.normal(size): fresh symbolic matrix (the noise realisation); zero mean / Gaussianity "
                  "of the draw is the environment's contract", "np.exp/np.cos uninterpreted (BraninCurrin)"],
        "assumptions": ["floats are encoded as exact reals", "noise law = linearity in the standard-normal draw with "
                        "AᵀA = Σ (diagonal factors: the only ones VOPy's problem classes build); the correlated-factor "
                        "convention of get_noisy_evaluations_chol is undocumented and only recorded"],
        "outside": ["sklearn's expanded-form distance rounding near ties", "Gaussianity of np.random.normal",
                    "bundled-dataset scaling is a concrete computation on fixed files (checked concretely, no solver)"],
        "explanation": "real problem classes executed on symbolic datasets, queries and noise draws",
    }
