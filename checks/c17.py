"""C17 — cone constants α, u*, d1 and β are the optima they are defined as."""
from __future__ import annotations

import math
from fractions import Fraction
from types import SimpleNamespace

import numpy as np
import z3

from symx import cpshim, sym
from symx.arr import NpProxy, SymArray, symarray
from symx.explore import Explorer, Inconclusive, model_value
from symx.harness import (Wz, cone_set, dotz, frac_json, from_frac_json, make_order, patched,
                          src_info, zand, zor, zs)
from symx.sym import HarnessError, Sym

from checks.c19 import exact_alpha

PROPERTY = "C17"
PI = Fraction(math.pi)


def _mods():
    import vopy.algorithms.vogp as vg
    import vopy.algorithms.vogp_ad as va
    import vopy.ordering_cone as oc
    import vopy.utils.utils as uu
    return uu, oc, vg, va


# -- α ---------------------------------------------------------------------------------------
def alpha_task(cone, W, tier):
    """the program get_alpha builds must be max w_n·x over {Wx ≥ 0, ‖x‖ ≤ 1} and the returned
    number its optimum (attainment witness + lower-bound fact instantiated at an arbitrary
    oracle-feasible point)"""
    uu, oc, vg, va = _mods()
    W = np.asarray(W, dtype=float)
    K, m = W.shape
    Wq = Wz(W)
    ex = Explorer(f"get_alpha[{cone}]", query_timeout_ms=120000)

    def feasible(x):
        return z3.And(zand([dotz(r, x) >= 0 for r in Wq]), sum((v * v for v in x), sym.rv(0)) <= 1)

    def body(ctx):
        proxy = NpProxy()
        with patched((uu, {"np": proxy, "cp": cpshim.CpShim})):
            vec = uu.get_alpha_vec(W)
        if np.shape(vec) != (K, 1):
            raise HarnessError(f"get_alpha_vec shape {np.shape(vec)}")
        probs = cpshim.problems(ctx)
        if len(probs) != K:
            raise HarnessError(f"{len(probs)} programs for {K} facets")
        ctx.witness("any")
        claims = {}
        for n, p in enumerate(probs):
            a = sym.to_z3(np.asarray(vec, dtype=object)[n, 0])
            wit = p["witness"]
            x = [ctx.fresh("ox") for _ in range(m)]
            ctx.fact(p["universal"].at(x))
            claims[f"α_{n} attained by a feasible point"] = z3.And(feasible(wit), dotz(Wq[n], wit) == a)
            claims[f"α_{n} bounds w_n·x on the whole feasible set"] = z3.Implies(feasible(x), dotz(Wq[n], x) <= a)
        for name, cl in claims.items():
            mdl = ctx.prove(name, cl)
            if mdl is not None:
                ex.candidate(name, {"kind": "alpha", "cone": cone, "W": W.tolist()}, {"cone": cone, "claim": name[:3]})
                return
        ctx.sample({"cone": cone, "facets": K})

    ex.run(body)
    ex.finalize(replay)
    r = ex.result()
    r["config"] = {"cone": cone, "K": K, "m": m}
    # concrete: the numbers VOPy's real get_alpha_vec returns versus the independent KKT oracle
    rep = replay({"kind": "alpha", "cone": cone, "W": W.tolist()})
    r["concrete_validations"] = 1
    r["recorded"] = [rep["detail"]]
    if rep["reproduced"]:
        r["violations"].append({"obligation": "get_alpha_vec == independent KKT oracle (numerical)",
                                "case": {"kind": "alpha", "cone": cone, "W": W.tolist()}, "reproduced": True,
                                "replay_detail": rep["detail"], "features": {"cone": cone, "source": "concrete_validation"}})
    return r


def replay(case):
    uu, oc, vg, va = _mods()
    k = case["kind"]
    if k == "alpha":
        W = np.array(case["W"], dtype=float)
        got = np.asarray(uu.get_alpha_vec(W), dtype=float).reshape(-1)
        want = exact_alpha(W)
        return {"reproduced": bool(np.abs(got - want).max() > 1e-6),
                "detail": f"get_alpha_vec={np.round(got, 8).tolist()} KKT oracle={np.round(want, 8).tolist()}"}
    if k == "ustar":
        W = np.array(case["W"], dtype=float)
        order = make_order(W)
        cls = vg.VOGP if case["cls"] == "VOGP" else va.VOGP_AD
        self_ = SimpleNamespace(order=order, m=W.shape[1])
        u, d1 = cls.compute_u_star(self_)
        zt, dt = exact_min_norm(W)
        ok = abs(d1 - dt) <= 1e-6 * (1 + dt) and np.abs(u - zt / dt).max() <= 1e-5 and \
            abs(np.linalg.norm(u) - 1) < 1e-9 and np.all(W @ u > 0)
        return {"reproduced": not ok, "detail": f"{case['cls']}.compute_u_star: u*={np.round(u, 7).tolist()} d1={d1:.8f}; "
                f"active-set oracle: u*={np.round(zt / dt, 7).tolist()} d1={dt:.8f}"}
    if k == "beta":
        deg = float(Fraction(from_frac_json(case["deg"])))
        with patched((oc, {"get_alpha_vec": lambda W: np.ones((2, 1))})):
            b = oc.ConeTheta2D(deg).beta
        want = 1 / math.sin(math.radians(deg)) if deg < 90 else 1.0
        a = exact_alpha(uu.get_2d_w(deg))
        return {"reproduced": abs(b - want) > 1e-9 * want or abs(b * a[0] - 1) > 1e-6,
                "detail": f"beta({deg})={b}, 1/sinθ|1={want}, α={a.tolist()}"}
    return {"reproduced": False, "detail": "unknown"}


def exact_min_norm(W):
    """independent oracle for min ‖z‖ s.t. Wz ≥ 1: enumerate active sets, solve the equality-
    constrained least-norm problem z = W_Sᵀ(W_S W_Sᵀ)⁻¹1, keep feasible candidates with
    non-negative multipliers"""
    import itertools
    W = np.asarray(W, dtype=float)
    K, m = W.shape
    best = None
    for r in range(1, min(K, m) + 1):
        for S in itertools.combinations(range(K), r):
            A = W[list(S)]
            G = A @ A.T
            if abs(np.linalg.det(G)) < 1e-12:
                continue
            lam = np.linalg.solve(G, np.ones(r))
            if np.any(lam < -1e-10):
                continue
            z = A.T @ lam
            if np.all(W @ z >= 1 - 1e-9):
                if best is None or np.linalg.norm(z) < np.linalg.norm(best):
                    best = z
    return best, float(np.linalg.norm(best))


# -- u*, d1 ------------------------------------------------------------------------------------
class MinimizeShim:
    """contract stub for scipy.optimize.minimize(SLSQP): calls the code's own closures on a symbolic
    z to extract the program, returns res.x = exact minimiser (attainment witness; the optimality
    fact 'every feasible z has objective >= optimum' is recorded for instantiation)"""

    def __init__(self, ctx):
        self.ctx = ctx
        self.calls = []

    def __call__(self, fun, x0, method=None, constraints=(), **kw):
        ctx = self.ctx
        n = len(x0)
        zv = [ctx.fresh("slsqp_z") for _ in range(n)]
        zs_ = symarray([Sym(v) for v in zv])
        obj = sym.to_z3(fun(zs_))
        cons = []
        for c in constraints:
            vals = np.asarray(c["fun"](zs_), dtype=object).ravel()
            for v in vals:
                cons.append(sym.to_z3(v) >= 0 if c["type"] == "ineq" else sym.to_z3(v) == 0)
        feas = z3.And(*cons) if cons else z3.BoolVal(True)
        wit = [ctx.fresh("slsqp_opt") for _ in range(n)]
        sub = list(zip(zv, wit))
        # facts used by the objective (sqrt variables) must be re-stated for the witness: evaluate
        # the closures again on the witness so that their own definitions are generated
        ws = symarray([Sym(v) for v in wit])
        obj_w = sym.to_z3(fun(ws))
        cons_w = []
        for c in constraints:
            for v in np.asarray(c["fun"](ws), dtype=object).ravel():
                cons_w.append(sym.to_z3(v) >= 0 if c["type"] == "ineq" else sym.to_z3(v) == 0)
        ctx.fact(z3.And(*cons_w) if cons_w else z3.BoolVal(True))
        self.calls.append({"vars": zv, "objective": obj, "feasible": feas, "witness": wit,
                           "objective_at_witness": obj_w, "fun": fun, "constraints": constraints})
        return SimpleNamespace(x=ws, fun=Sym(obj_w), success=True, status=0)

    def lower_bound_at(self, call, point):
        """instantiate 'feasible(z) ⇒ objective(z) ≥ objective(z*)' at a concrete term vector by
        re-evaluating the code's closures there"""
        ps = symarray([Sym(sym.to_z3(p)) for p in point])
        obj_p = sym.to_z3(call["fun"](ps))
        cons_p = []
        for c in call["constraints"]:
            for v in np.asarray(c["fun"](ps), dtype=object).ravel():
                cons_p.append(sym.to_z3(v) >= 0 if c["type"] == "ineq" else sym.to_z3(v) == 0)
        return z3.Implies(z3.And(*cons_p) if cons_p else z3.BoolVal(True), obj_p >= call["objective_at_witness"]), obj_p


def ustar_task(cone, W, cls_name, tier):
    uu, oc, vg, va = _mods()
    W = np.asarray(W, dtype=float)
    K, m = W.shape
    Wq = Wz(W)
    mod = vg if cls_name == "VOGP" else va
    cls = vg.VOGP if cls_name == "VOGP" else va.VOGP_AD
    order = make_order(W)
    ex = Explorer(f"compute_u_star[{cls_name},{cone}]", query_timeout_ms=120000)
    zt, dt = exact_min_norm(W)

    def body(ctx):
        shim = MinimizeShim(ctx)
        proxy = NpProxy()
        self_ = SimpleNamespace(order=order, m=m)
        with patched((mod, {"np": proxy, "minimize": shim})):
            u, d1 = cls.compute_u_star(self_)
        if len(shim.calls) != 1:
            raise HarnessError("minimize not called exactly once")
        call = shim.calls[0]
        ctx.witness("any")
        uz = [sym.to_z3(v) for v in np.asarray(u, dtype=object).ravel()]
        d = sym.to_z3(d1)
        w = call["witness"]
        # (a) the program is  min ‖z‖  s.t.  Wz ≥ 1  (for an arbitrary z)
        z = call["vars"]
        claims = {
            "feasible set = {z : Wz ≥ 1}": call["feasible"] == zand([dotz(r, z) >= 1 for r in Wq]),
            "objective = ‖z‖": z3.And(call["objective"] >= 0,
                                      call["objective"] * call["objective"] == sum((v * v for v in z), sym.rv(0))),
            # (b) what is returned: u* = z*/‖z*‖, d1 = ‖z*‖, u* in the cone's interior
            "d1 = ‖z*‖": z3.And(d >= 0, d * d == sum((v * v for v in w), sym.rv(0))),
            "u* = z*/‖z*‖": zand([uz[i] * d == w[i] for i in range(m)]),
            "u* inside the cone (W u* > 0)": zand([dotz(r, uz) > 0 for r in Wq]),
        }
        # (c) optimality of z* over the oracle's feasible set, instantiated at an arbitrary point
        y = [ctx.fresh("oy") for _ in range(m)]
        lb, obj_y = shim.lower_bound_at(call, y)
        ctx.fact(lb)
        # obj_y is the code's objective evaluated at y (proved above to be ‖y‖); d = ‖z*‖
        claims["no oracle-feasible point has smaller norm"] = z3.Implies(
            zand([dotz(r, y) >= 1 for r in Wq]), z3.And(obj_y >= d, obj_y * obj_y == sum((v * v for v in y), sym.rv(0))))
        for name, cl in claims.items():
            mdl = ctx.prove(name, cl)
            if mdl is not None:
                ex.candidate(name, {"kind": "ustar", "cls": cls_name, "cone": cone, "W": W.tolist()},
                             {"cls": cls_name, "cone": cone, "claim": name})
                return
        ctx.sample({"cls": cls_name, "cone": cone})

    ex.run(body)
    ex.finalize(replay)
    r = ex.result()
    r["config"] = {"cls": cls_name, "cone": cone}
    rep = replay({"kind": "ustar", "cls": cls_name, "cone": cone, "W": W.tolist()})
    r["concrete_validations"] = 1
    r["recorded"] = [rep["detail"]]
    if rep["reproduced"]:
        r["violations"].append({"obligation": "compute_u_star == active-set oracle (numerical)",
                                "case": {"kind": "ustar", "cls": cls_name, "cone": cone, "W": W.tolist()},
                                "reproduced": True, "replay_detail": rep["detail"],
                                "features": {"cone": cone, "cls": cls_name, "source": "concrete_validation"}})
    return r


# -- θ-cone: α = sin θ (acute) / 1 (right, obtuse); β = 1/α — for all θ at once -----------------
def theta_task(tier):
    uu, oc, vg, va = _mods()
    ex = Explorer("theta_cone: beta(θ) symbolic", query_timeout_ms=120000)

    def body(ctx):
        deg = ctx.real("deg")
        c, s = ctx.real("cos_half"), ctx.real("sin_half")
        ctx.assume([deg > 0, deg < 180, deg != 90])
        ctx.fact([c.e * c.e + s.e * s.e == 1, c.e > 0, s.e > 0, (deg.e < 90) == (s.e < c.e),
                  (deg.e <= 90) == (s.e <= c.e)])

        def lin(x):
            e = sym.to_z3(x)
            a0 = sym.const_value(z3.simplify(z3.substitute(e, (deg.e, z3.RealVal(0)))))
            a1 = sym.const_value(z3.simplify(z3.substitute(e, (deg.e, z3.RealVal(1))) -
                                             z3.substitute(e, (deg.e, z3.RealVal(0)))))
            return a0, a1

        def tan(x):
            a0, a1 = lin(x)
            if a0 is None or abs(a0 - PI / 4) > Fraction(1, 10**15) or abs(abs(a1) - PI / 360) > Fraction(1, 10**17):
                raise HarnessError("tan argument not pi/4 ± θ/2")
            return (c - s) / (c + s) if a1 < 0 else (c + s) / (c - s)

        def sin(x):
            a0, a1 = lin(x)
            if a0 is None or a0 != 0 or abs(a1 - PI / 180) > Fraction(1, 10**17):
                raise HarnessError("sin argument not θ in radians")
            ctx.note("sin θ = 2 sin(θ/2) cos(θ/2)")
            return 2 * s * c

        proxy = NpProxy(hooks={"tan": tan, "sin": sin})
        with patched((uu, {"np": proxy, "cp": cpshim.CpShim}), (oc, {"np": proxy})):
            cone = oc.ConeTheta2D(deg)   # runs get_2d_w and get_alpha_vec on the symbolic W
            beta = cone.beta
            W = cone.W
            alpha = cone.alpha
        acute = bool(deg < 90)
        ctx.witness("acute" if acute else "obtuse")
        Wq = zs(W)
        probs = cpshim.problems(ctx)
        sin_t = 2 * s.e * c.e
        target = sin_t if acute else sym.rv(1)
        claims = {"β = 1/sin θ (acute) | 1": (sym.to_z3(beta) * sin_t == 1) if acute else (sym.to_z3(beta) == 1)}
        # (the symbolic-θ optimality of α — 'no feasible x beats sin θ' — returned unknown in z3 nlsat after
        #  240 s per facet; α's optimality is decided per cone by alpha_task and β·α = 1 on the θ grid)
        for name, cl in claims.items():
            mdl = ctx.prove(name, cl)
            if mdl is not None:
                ex.candidate(name, {"kind": "beta", "deg": frac_json(model_value(mdl, deg.e))},
                             {"claim": name, "branch": "acute" if acute else "obtuse"})
                return
        ctx.sample({"branch": "acute" if acute else "obtuse", "claims": list(claims)})

    ex.run(body)
    ex.finalize(replay)
    r = ex.result()
    for lab in ("acute", "obtuse"):
        if not ex.witnessed.get(lab):
            r["inconclusive"].append(f"vacuity: {lab} unreachable")
    r["config"] = {"theta": "symbolic (0,180)\\{90}"}
    return r


def beta_grid_task(tier):
    """β on a concrete θ grid (incl. 90): real ConeTheta2D.beta vs 1/sin θ and vs 1/α from the KKT oracle"""
    out = {"harness": "beta_grid", "paths": 0, "transitions": 0, "queries": {}, "solver_s": 0.0,
           "violations": [], "inconclusive": [], "obligations": {}, "samples": [], "recorded": []}
    for deg in ([30, 45, 60, 89, 90, 91, 120, 150] if tier == "quick" else list(range(5, 180, 5)) + [89.999, 90.001]):
        rep = replay({"kind": "beta", "deg": str(Fraction(deg))})
        out["paths"] += 1
        out["recorded"].append({"deg": deg, "detail": rep["detail"]})
        if rep["reproduced"]:
            out["violations"].append({"obligation": "beta = 1/alpha", "reproduced": True, "replay_detail": rep["detail"],
                                      "case": {"kind": "beta", "deg": str(Fraction(deg))}, "features": {"deg": deg}})
    out["transitions"] = out["paths"]
    out["concrete_validations"] = out["paths"]
    out["samples"] = out["recorded"][:2]
    out["recorded"] = out["recorded"][:8]
    return out


def tasks(tier, seed):
    ts = []
    for cone, W in cone_set(tier, seed=seed):
        ts.append({"id": f"alpha[{cone}]", "fn": "alpha_task", "args": {"cone": cone, "W": W.tolist(), "tier": tier}})
        for cls in ("VOGP", "VOGP_AD"):
            ts.append({"id": f"ustar[{cls},{cone}]", "fn": "ustar_task",
                       "args": {"cone": cone, "W": W.tolist(), "cls_name": cls, "tier": tier}})
    ts.append({"id": "theta[symbolic]", "fn": "theta_task", "args": {"tier": tier}, "weight": 50})
    ts.append({"id": "beta_grid", "fn": "beta_grid_task", "args": {"tier": tier}})
    return ts


def meta(tier):
    uu, oc, vg, va = _mods()
    return {
        "level": "model_checking",
        "functions": src_info(uu.get_alpha, uu.get_alpha_vec, vg.VOGP.compute_u_star, va.VOGP_AD.compute_u_star,
                              oc.ConeTheta2D.beta, oc.ConeTheta2D.__init__, uu.get_2d_w),
        "bounds": {"cones": [c for c, _ in cone_set(tier)], "theta": "symbolic (0,180)\\{90} + concrete grid"},
        "stubs": ["cvxpy exact-optimum stub (attainment witness + lower-bound fact)",
                  "scipy.optimize.minimize: exact-minimiser stub built from the code's own closures",
                  "np.tan/np.sin through the half-angle parametrisation (trusted identities)"],
        "assumptions": ["floats are encoded as exact reals",
                        "whether ECOS/Clarabel and SLSQP numerically reach the optima is NOT decided symbolically; "
                        "it is checked concretely on the cone set against independent KKT / active-set oracles"],
        "explanation": "program extraction: the check decides that the program VOPy builds is the defining one and "
                       "that the returned numbers are read off it correctly",
    }
