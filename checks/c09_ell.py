"""C09 (ellipsoids) — real EllipsoidalConfidenceRegion.is_dominated on the exact-optimum cvxpy stub."""
from __future__ import annotations

from fractions import Fraction

import numpy as np
import z3

from symx import cpshim, sym
from symx.arr import NpProxy
from symx.explore import Explorer, Inconclusive, model_value
from symx.harness import Wz, cone_set, dotz, frac_json, from_frac_json, make_order, patched, zand, zor, zs
from symx.spd import SpdMat, SpProxy, inv_hook, sigma_from_T, spd_T
from symx.sym import HarnessError

from checks.c10 import ell_member


def _mods():
    import vopy.confidence_region as cr
    import vopy.order as vo
    import vopy.ordering_cone as oc
    import vopy.utils.utils as uu
    return cr, uu, vo, oc


def ell_task(cone, W, slack_kind, tier):
    cr, uu, vo, oc = _mods()
    W = np.asarray(W, dtype=float)
    K, m = W.shape
    order = make_order(W)
    Wq = Wz(W)
    # concrete validation first: when the real code already disagrees with the oracle on samples, the
    # symbolic exploration still runs (for the evidence) but with short solver timeouts
    pre = {"violations": []}
    nval = _validate(W, (30 if K > m else 12) if tier == "quick" else 60, pre)
    ex = Explorer(f"ell_is_dominated[{cone},{slack_kind}]", query_timeout_ms=15000 if pre["violations"] else 90000,
                  fork_check=False, witness_timeout_ms=20000)

    def body(ctx):
        proxy = NpProxy(hooks={"inv": inv_hook})
        c1, c2 = ctx.reals("c1", m), ctx.reals("c2", m)
        T1, T2 = spd_T(ctx, "T1", m), spd_T(ctx, "T2", m)
        a1, a2 = ctx.real("alpha1"), ctx.real("alpha2")
        ctx.assume([a1 > 0, a2 > 0])
        if slack_kind == "scalar":
            s = ctx.real("s")
            sv = [s.e] * K
        elif slack_kind == "zero":
            s, sv = np.array(0.0), [sym.rv(0)] * K
        else:
            s = ctx.reals("s", K)
            sv = zs(s)
        with patched((cr, {"np": proxy, "cp": cpshim.CpShim, "sp": SpProxy()}), (uu, {"np": proxy}),
                     (vo, {"np": proxy}), (oc, {"np": proxy})):
            R1 = cr.EllipsoidalConfidenceRegion(m, c1, SpdMat(T1, -2), a1)
            R2 = cr.EllipsoidalConfidenceRegion(m, c2, SpdMat(T2, -2), a2)
            ret = cr.confidence_region_is_dominated(order, R1, R2, s)
        if not isinstance(ret, (bool, np.bool_)):
            raise HarnessError(f"is_dominated returned {type(ret)}")
        ret = bool(ret)
        probs = cpshim.problems(ctx)
        ctx.witness(f"{ret}@{len(probs)}")
        T1z, T2z, c1z, c2z = zs(T1), zs(T2), zs(c1), zs(c2)
        in1 = lambda z: ell_member(T1z, c1z, a1.e, z)  # noqa
        in2 = lambda z: ell_member(T2z, c2z, a2.e, z)  # noqa
        if ret:
            # (fewer than K programs on a True path is not an error of the harness: the soundness obligation below
            #  then lacks the lower-bound fact of the skipped facets and is refuted unless the code is still right)
            x = [ctx.fresh("ox") for _ in range(m)]
            y = [ctx.fresh("oy") for _ in range(m)]
            for p in probs:
                ctx.fact([p["universal"].at(x + y), p["universal"].at(y + x)])
            claim = z3.Implies(z3.And(in1(x), in2(y)),
                               zand([dotz(Wq[n], [y[i] - x[i] for i in range(m)]) >= -sv[n] for n in range(K)]))
            name = "True ⇒ ∀x∈E1 ∀y∈E2 ∀n: w_n·(y−x) ≥ −slack_n"
        else:
            p = probs[-1]
            w = p["witness"]
            a, b = w[:m], w[m:]
            viol = lambda x, y: z3.And(in1(x), in2(y), zor(  # noqa
                [dotz(Wq[n], [y[i] - x[i] for i in range(m)]) < -sv[n] for n in range(K)]))
            claim = z3.Or(viol(a, b), viol(b, a))
            name = "False ⇒ ∃x∈E1 ∃y∈E2 ∃n: w_n·(y−x) < −slack_n (attainment witness)"
        mdl = ctx.prove(name, claim)
        if mdl is not None:
            wellc = []
            for Tz in (T1z, T2z):
                for i_ in range(m):
                    for j_ in range(m):
                        wellc.append(z3.And(Tz[i_][j_] >= Fraction(1, 2), Tz[i_][j_] <= 2) if i_ == j_ else
                                     z3.And(Tz[i_][j_] >= Fraction(-1, 4), Tz[i_][j_] <= Fraction(1, 4)))
            wellc += [z3.And(c >= -4, c <= 4) for c in c1z + c2z] + \
                     [a1.e <= 1, a2.e <= 1, a1.e >= Fraction(1, 100), a2.e >= Fraction(1, 100)]
            for extra in (wellc + [a1.e <= Fraction(1, 20), a2.e <= Fraction(1, 20)], wellc, []):
                try:
                    m2 = ctx.satisfiable([z3.Not(claim)] + extra, timeout_ms=ex.query_timeout_ms // 3)
                except Inconclusive:
                    m2 = None
                if m2 is None:
                    continue
                mv = lambda e: model_value(m2, e)  # noqa
                ex.candidate(name, {"kind": "ell", "cone": cone, "W": W.tolist(),
                                    "T1": frac_json([[mv(e) for e in row] for row in T1z]),
                                    "c1": frac_json([mv(e) for e in c1z]), "a1": frac_json(mv(a1.e)),
                                    "T2": frac_json([[mv(e) for e in row] for row in T2z]),
                                    "c2": frac_json([mv(e) for e in c2z]), "a2": frac_json(mv(a2.e)),
                                    "s": frac_json([mv(e) for e in sv])},
                             {"region": "ell", "cone": cone, "returned": ret}, limit=6)
            return
        ctx.sample({"cone": cone, "slack": slack_kind, "ret": ret, "programs_solved": len(probs)})

    ex.run(body)
    ex.finalize(replay)
    if any(v.get("reproduced") for v in ex.violations):
        ex.violations = [v for v in ex.violations if v.get("reproduced")]
    r = ex.result()
    if not any(k.startswith("True") for k in ex.witnessed) or not any(k.startswith("False") for k in ex.witnessed):
        r["inconclusive"].append("vacuity: True/False outcome never reached")
    r["config"] = {"cone": cone, "m": m, "K": K, "slack": slack_kind, "region": "ellipsoid"}
    r["concrete_validations"] = nval
    r["violations"].extend(pre["violations"])
    return r


def closed_form(W, S1, c1, a1, S2, c2, a2, s):
    """support functions: min_{x∈E1,y∈E2} w·(y−x) = w·(c2−c1) − a2·sqrt(wᵀΣ2w) − a1·sqrt(wᵀΣ1w);
    returns the per-facet margins value_n + slack_n"""
    out = []
    for n, w in enumerate(W):
        v = w @ (c2 - c1) - a2 * np.sqrt(w @ S2 @ w) - a1 * np.sqrt(w @ S1 @ w)
        out.append(v + s[n])
    return np.array(out)


def replay(case):
    cr, uu, vo, oc = _mods()
    W = np.array(case["W"], dtype=float)
    F = lambda a: np.array([[float(Fraction(v)) for v in row] for row in from_frac_json(a)])  # noqa
    F1 = lambda a: np.array([float(Fraction(v)) for v in from_frac_json(a)])  # noqa
    S1, S2 = sigma_from_T(F(case["T1"])), sigma_from_T(F(case["T2"]))
    c1, c2, s = F1(case["c1"]), F1(case["c2"]), F1(case["s"])
    a1, a2 = float(Fraction(from_frac_json(case["a1"]))), float(Fraction(from_frac_json(case["a2"])))
    if max(np.linalg.cond(S1), np.linalg.cond(S2)) > 1e8:
        return {"reproduced": False, "detail": "ill-conditioned Σ (outside the claim)"}
    order = make_order(W)
    R1 = cr.EllipsoidalConfidenceRegion(len(c1), c1, S1, a1)
    R2 = cr.EllipsoidalConfidenceRegion(len(c1), c2, S2, a2)
    try:
        code = bool(cr.confidence_region_is_dominated(order, R1, R2, s))
    except Exception as ex:  # noqa
        return {"reproduced": True, "detail": "real is_dominated raised " + repr(ex)}
    margins = closed_form(W, S1, c1, a1, S2, c2, a2, s)
    scale = 1e-6 * (1 + np.abs(c1).max() + np.abs(c2).max() + np.abs(s).max() + a1 + a2)
    if np.any(np.abs(margins) < scale):
        return {"reproduced": False, "detail": "configuration within 1e-6 (relative) of the boundary"}
    oracle = bool(np.all(margins >= 0))
    return {"reproduced": code != oracle, "code": code, "oracle": oracle,
            "detail": f"real ellipsoidal is_dominated={code}, support-function oracle={oracle} (margins {margins})"}


def _validate(W, n, r):
    rng = np.random.RandomState(6)
    K, m = W.shape
    ok = 0
    for it in range(n + 2 * K):
        def rT():
            A = rng.uniform(-1, 1, (m, m))
            return A @ A.T + np.eye(m) * 0.5
        c1 = rng.uniform(-1, 1, m)
        # second centre placed roughly along the cone axis so that both outcomes occur
        # second centre along a randomly perturbed interior direction of the cone, so that each facet is the deciding
        # one in some samples (incl. facets with index ≥ m of K > m cones) and both outcomes occur
        c2 = c1 + rng.uniform(-0.5, 3) * np.linalg.pinv(W) @ (np.ones(K) + rng.uniform(-1.2, 1.2, K))
        if it >= n:
            # targeted: facet (it − n) mod K is the only one asked to fail, every other facet to hold comfortably
            g = np.ones(K) * 3.0
            g[(it - n) % K] = -1.5
            c2 = c1 + np.linalg.pinv(W) @ g
        fj = lambda v: frac_json([Fraction(float(x)) for x in v])  # noqa
        case = {"kind": "ell", "cone": "validation", "W": W.tolist(),
                "T1": frac_json([[Fraction(float(x)) for x in row] for row in rT()]),
                "T2": frac_json([[Fraction(float(x)) for x in row] for row in rT()]),
                "c1": fj(c1), "c2": fj(c2), "a1": frac_json(Fraction(float(rng.uniform(0.05, 0.5)))),
                "a2": frac_json(Fraction(float(rng.uniform(0.05, 0.5)))), "s": fj(rng.uniform(-0.2, 0.2, K))}
        rep = replay(case)
        if rep["reproduced"]:
            r["violations"].append({"obligation": "concrete validation: real code vs support-function oracle",
                                    "case": case, "reproduced": True, "replay_detail": rep["detail"],
                                    "features": {"region": "ell", "source": "concrete_validation"}})
        else:
            ok += 1
    return ok


def tasks(tier, seed):
    ts = []
    for cone, W in cone_set(tier, seed=seed):
        m = W.shape[1]
        for sk in (["vector"] if tier == "quick" else ["vector", "scalar"]):
            ts.append({"id": f"ell[{cone},{sk}]", "fn": "ell_task",
                       "args": {"cone": cone, "W": W.tolist(), "slack_kind": sk, "tier": tier},
                       "weight": 30 if m == 3 else 5})
    # route through the c09 module (fn names are resolved there)
    return ts
