"""C18 — adaptive discretisation tiles the domain; VOGP_AD declares only finest leaves."""
from __future__ import annotations

import itertools

import numpy as np
import z3

from symx import sym
from symx.arr import NpProxy, SymArray, symarray
from symx.explore import Explorer, model_value
from symx.harness import cone_set, frac_json, from_frac_json, patched, src_info, zand, zor, zs
from symx.sym import HarnessError, Sym

from checks import algo as A
from checks import runs
from checks.runs import run_task  # noqa: F401 (task entry point)

PROPERTY = "C18"


def _ds():
    import vopy.design_space as ds
    import vopy.confidence_region as cr
    return ds, cr


def cell_task(d, tier):
    """real refine_design / generate_child_designs on a cell with SYMBOLIC bounds a_k < b_k (so the
    statement is about any cell, hence any depth, by induction) and a symbolic parent region"""
    ds, cr = _ds()
    px = NpProxy()
    ex = Explorer(f"refine_cell[d={d}]", query_timeout_ms=60000)
    m = 2

    def body(ctx):
        sp = ds.AdaptivelyDiscretizedDesignSpace(d, m, delta=0.1, max_depth=5)
        a_, b_ = ctx.reals("a", d), ctx.reals("b", d)
        ctx.assume(a_ < b_)
        sp.cells = [[[a_.view(np.ndarray)[k], b_.view(np.ndarray)[k]] for k in range(d)]]
        lo, up = ctx.reals("lo", m), ctx.reals("up", m)
        ctx.assume(lo <= up)
        par = cr.RectangularConfidenceRegion.__new__(cr.RectangularConfidenceRegion)
        par.lower, par.upper, par.intersect_iteratively = lo, up, False
        sp.confidence_regions = [par]
        depth0 = 3
        sp.point_depths = [depth0]
        with patched((ds, {"np": px}), (cr, {"np": px})):
            ch = sp.refine_design(0)
        ctx.witness("refined")
        az, bz = zs(a_), zs(b_)
        n = sp.cardinality
        ok = (len(ch) == 2 ** d and list(ch) == list(range(1, 1 + 2 ** d)) and n == 1 + 2 ** d and
              len(sp.points) == n and len(sp.cells) == n and len(sp.point_depths) == n and len(sp.confidence_regions) == n
              and all(sp.point_depths[c] == depth0 + 1 for c in ch))
        claims = {"2^d children, depth+1, arrays aligned": z3.BoolVal(bool(ok))}
        if ok:
            cells = [[(sym.to_z3(sp.cells[c][k][0]), sym.to_z3(sp.cells[c][k][1])) for k in range(d)] for c in ch]
            pts = [[sym.to_z3(v) for v in np.asarray(sp.points[c], dtype=object)] for c in ch]
            claims["each child side is half the parent's; child point is the child's centre; inside the parent"] = zand(
                [z3.And(2 * (hi - lo_) == bz[k] - az[k], 2 * pts[c][k] == lo_ + hi, lo_ >= az[k], hi <= bz[k])
                 for c, cell in enumerate(cells) for k, (lo_, hi) in enumerate(cell)])
            x = [ctx.fresh("x") for _ in range(d)]
            inpar = zand([z3.And(az[k] <= x[k], x[k] <= bz[k]) for k in range(d)])
            claims["every point of the parent lies in some child"] = z3.Implies(
                inpar, zor([zand([z3.And(cell[k][0] <= x[k], x[k] <= cell[k][1]) for k in range(d)]) for cell in cells]))
            claims["children's interiors are pairwise disjoint"] = zand(
                [z3.Not(zand([z3.And(z3.If(c1[k][0] >= c2[k][0], c1[k][0], c2[k][0]) < z3.If(c1[k][1] <= c2[k][1], c1[k][1], c2[k][1]))
                              for k in range(d)])) for c1, c2 in itertools.combinations(cells, 2)])
            claims["children start from the parent's confidence region"] = z3.BoolVal(all(
                all(x_ is y_ for x_, y_ in zip(np.asarray(sp.confidence_regions[c].lower, dtype=object), lo.view(np.ndarray))) and
                all(x_ is y_ for x_, y_ in zip(np.asarray(sp.confidence_regions[c].upper, dtype=object), up.view(np.ndarray)))
                for c in ch))
        for name, cl in claims.items():
            mdl = ctx.prove(name, cl)
            if mdl is not None:
                ex.candidate(name, {"kind": "cell", "d": d, "a": frac_json([model_value(mdl, e) for e in az]),
                                    "b": frac_json([model_value(mdl, e) for e in bz]), "claim": name}, {"claim": name, "d": d})
                return
        ctx.sample({"d": d, "children": list(ch)})

    ex.run(body)
    ex.finalize(replay)
    r = ex.result()
    r["config"] = {"d": d}
    return r


def gate_task(tier):
    """should_refine_design is False at depth ≥ max_depth whatever the model says (the model must not
    even be consulted), so depth never exceeds the maximum"""
    ds, cr = _ds()
    out = {"harness": "depth_gate", "paths": 0, "transitions": 0, "queries": {}, "solver_s": 0.0, "violations": [],
           "inconclusive": [], "obligations": {}, "samples": [], "recorded": []}

    class Boom:
        def __getattr__(self, n):
            raise AssertionError("model consulted beyond the depth gate")
    for d in (1, 2, 3):
        for maxd in (1, 2, 4):
            sp = ds.AdaptivelyDiscretizedDesignSpace(d, 2, delta=0.1, max_depth=maxd)
            for depth in (maxd, maxd + 1, maxd + 5):
                sp.point_depths = [depth]
                try:
                    r = sp.should_refine_design(Boom(), 0, np.array(1.0))
                except AssertionError:
                    r = "consulted"
                out["paths"] += 1
                out["recorded"].append({"d": d, "max_depth": maxd, "depth": depth, "returned": str(r)})
                if r is not False:
                    out["violations"].append({"obligation": "no refinement at or beyond the maximum depth", "reproduced": True,
                                              "case": {"kind": "gate", "d": d, "max_depth": maxd, "depth": depth},
                                              "features": {"depth": depth, "max_depth": maxd}})
    out["transitions"] = out["paths"]
    out["concrete_validations"] = out["paths"]
    out["samples"] = out["recorded"][:2]
    out["recorded"] = out["recorded"][:6]
    return out


def replay(case):
    ds, cr = _ds()
    if case["kind"] in ("crash", "runstep"):
        return runs.replay(case)
    if case["kind"] == "gate":
        return {"reproduced": True, "detail": str(case)}
    from fractions import Fraction
    d = case["d"]
    a = [float(Fraction(x)) for x in from_frac_json(case["a"])]
    b = [float(Fraction(x)) for x in from_frac_json(case["b"])]
    sp = ds.AdaptivelyDiscretizedDesignSpace(d, 2, delta=0.1, max_depth=5)
    sp.cells = [[[a[k], b[k]] for k in range(d)]]
    sp.points = np.array([[(a[k] + b[k]) / 2 for k in range(d)]])
    ch = sp.refine_design(0)
    cells = [sp.cells[c] for c in ch]
    bad = len(ch) != 2 ** d
    vol = sum(np.prod([hi - lo for lo, hi in c]) for c in cells)
    bad = bad or abs(vol - np.prod([b[k] - a[k] for k in range(d)])) > 1e-9 * max(1.0, abs(vol))
    for c, cell in zip(ch, cells):
        for k, (lo, hi) in enumerate(cell):
            if abs((hi - lo) * 2 - (b[k] - a[k])) > 1e-9 or lo < a[k] - 1e-12 or hi > b[k] + 1e-12 or \
                    abs(sp.points[c][k] - (lo + hi) / 2) > 1e-9:
                bad = True
        if sp.point_depths[c] != sp.point_depths[0] + 1:
            bad = True
    for c1, c2 in itertools.combinations(cells, 2):
        if all(max(x[0], y[0]) < min(x[1], y[1]) - 1e-12 for x, y in zip(c1, c2)):
            bad = True
    return {"reproduced": bool(bad), "detail": f"refine cell [{a},{b}] -> {cells}"}


def tasks(tier, seed):
    ts = [{"id": f"cell[d={d}]", "fn": "cell_task", "args": {"d": d, "tier": tier}} for d in (1, 2, 3)]
    ts.append({"id": "depth_gate", "fn": "gate_task", "args": {"tier": tier}})
    cs = {c: w for c, w in cone_set("thorough", dims=(2,))}
    for cone in (["orthant2"] if tier == "quick" else ["orthant2", "theta60", "theta120"]):
        ts.append({"id": f"run[VOGP_AD,{cone}]", "fn": "run_task",
                   "args": {"cls_name": "VOGP_AD", "ctype": None, "cone": cone, "W": cs[cone].tolist(), "N": 1,
                            "steps": 3, "batch": 1, "prop": "C18", "tier": tier}, "weight": 500})
    return ts


def meta(tier):
    ds, cr = _ds()
    va = A.amod("VOGP_AD").VOGP_AD
    c = ds.AdaptivelyDiscretizedDesignSpace
    return {"level": "model_checking",
            "functions": src_info(c.__init__, c.refine_design, c.generate_child_designs, c.should_refine_design,
                                  va.evaluate_refine, va.epsiloncovering, va.run_one_step),
            "bounds": {"cell level": "d = 1..3, arbitrary symbolic cell bounds (any depth by induction)",
                       "run level": "d = 1, max depth 3, 3 steps from the root (4 steps exhausted the 90 min budget), every refine/sample/discard choice; the thorough tier adds two cones"},
            "stubs": ["stub posterior, recording problem, free-oracle region predicates, β any positive scale",
                      "should_refine_design nondeterministic below the maximum depth (the real depth gate is kept)"],
            "assumptions": ["floats are encoded as exact reals (midpoints of dyadic cells are exact in binary64 anyway)",
                            "the Vh formula's analytic meaning and real GP behaviour are outside"],
            "explanation": "cell level: tiling of an arbitrary cell proved by z3 (coverage and interior-disjointness as "
                           "refutations); run level: tree invariants asserted on every prefix of every path"}
