"""checks.auer — one round of Auer's discarding / pareto_updating from an arbitrary state with
per-design, per-objective confidence widths, versus the reference transition (C02 / C03)."""
from __future__ import annotations

import itertools
from fractions import Fraction

import numpy as np
import z3

from symx import sym
from symx.arr import NpProxy, symarray
from symx.explore import Explorer, model_value
from symx.harness import frac_json, from_frac_json, patched, zand, zor, zs
from symx.sym import HarnessError, Sym

from checks import algo as A


def _zmax(xs):
    acc = xs[0]
    for x in xs[1:]:
        acc = z3.If(x >= acc, x, acc)
    return acc


def _zmin(xs):
    acc = xs[0]
    for x in xs[1:]:
        acc = z3.If(x <= acc, x, acc)
    return acc


def reference(N, m, S, c, beta, eps):
    """c[i], beta[i]: lists of z3 terms (design-attached).  Returns z3 formulas per design."""
    B = z3.BoolVal
    small = lambda i, j: _zmax([sym.rv(0), _zmin([c[j][k] - c[i][k] for k in range(m)])])  # noqa
    big = lambda i, j: _zmax([sym.rv(0), _zmax([c[i][k] + eps - c[j][k] for k in range(m)])])  # noqa
    disc = {i: z3.And(B(i in S), zor([zand([small(i, j) > beta[i][k] + beta[j][k] for k in range(m)])
                                      for j in S if j != i])) for i in range(N)}
    S1 = {i: z3.And(B(i in S), z3.Not(disc[i])) for i in range(N)}
    notP1 = {i: zor([z3.And(S1[j], zand([big(i, j) < beta[i][k] + beta[j][k] for k in range(m)]))
                     for j in range(N) if j != i]) for i in range(N)}
    P1 = {i: z3.And(S1[i], z3.Not(notP1[i])) for i in range(N)}
    held = {p: zor([z3.And(S1[s], z3.Not(P1[s]), zand([big(s, p) <= beta[p][k] + beta[s][k] for k in range(m)]))
                    for s in range(N) if s != p]) for p in range(N)}
    new = {p: z3.And(P1[p], z3.Not(held[p])) for p in range(N)}
    return {"disc": disc, "new": new}


def auer_task(N, m, widths, prop, tier):
    mod = A.amod("Auer")
    ex = Explorer(f"{prop}:Auer[N={N},m={m},widths={widths}]", query_timeout_ms=60000, max_paths=400000)
    state = {}

    def body(ctx):
        S, P = state["pre"]
        eps = ctx.real("eps")
        ctx.assume(eps > 0)
        a = A.build("Auer", N, m, None, None, eps, use_empirical_beta=(widths != "homogeneous"))
        c = ctx.reals("c", N, m)
        if widths == "homogeneous":
            b0 = ctx.real("beta")
            beta = symarray([[b0] * m for _ in range(N)])
        elif widths == "per_design":
            bb = ctx.reals("beta", N)
            beta = symarray([[bb.view(np.ndarray)[i]] * m for i in range(N)])
        else:
            beta = ctx.reals("beta", N, m)
        ctx.assume(beta > 0)
        import vopy.confidence_region as cr
        regs = []
        for i in range(N):
            r = cr.RectangularConfidenceRegion.__new__(cr.RectangularConfidenceRegion)
            r.intersect_iteratively = False
            r.lower, r.upper = c[i] - beta[i], c[i] + beta[i]
            regs.append(r)
        a.design_space.confidence_regions = regs
        a.S, a.P = set(S), set(P)
        # beta_t rows are laid out for list(S) as it is when the regions are displayed (modeling)
        order = list(a.S)
        a.beta_t = symarray([list(beta.view(np.ndarray)[i]) for i in order])
        with patched((mod, {"np": NpProxy()})):
            a.discarding()
            a.pareto_updating()
        S2, P2 = set(a.S), set(a.P)
        ctx.witness(f"|S'|={len(S2)},|P'|={len(P2)}")
        ref = reference(N, m, S, zs(c), zs(beta), eps.e)
        B = z3.BoolVal
        if prop == "C02":
            claims = {"left S without entering P ⇔ exceeded by more than the summed widths in every objective": zand(
                [B(i in S and i not in S2 and i not in P2) == ref["disc"][i] for i in range(N)])}
        else:
            claims = {"entered P ⇔ passes and is not held back (each design's own width)": zand(
                [B(i not in P and i in P2) == ref["new"][i] for i in range(N)]),
                "members never leave P; S∩P = ∅": B(P <= P2 and not (S2 & P2))}
        for name, cl in claims.items():
            mdl = ctx.prove(name, cl)
            if mdl is not None:
                mv = lambda e: model_value(mdl, e)  # noqa
                bz, cz = zs(beta), zs(c)
                removed_before = None
                ex.candidate(name, {"kind": "auer", "prop": prop, "N": N, "m": m, "pre": [sorted(S), sorted(P)],
                                    "eps": frac_json(mv(eps.e)), "c": frac_json([[mv(e) for e in r_] for r_ in cz]),
                                    "beta": frac_json([[mv(e) for e in r_] for r_ in bz]), "widths": widths},
                             {"cls": "Auer", "widths": widths, "claim": name})
                return
        ctx.sample({"pre": [sorted(S), sorted(P)], "post": [sorted(S2), sorted(P2)], "widths": widths})

    for pre in A.pre_states(N, "pess", tier):
        state["pre"] = (pre[0], pre[1])
        ex.run(body)
    ex.finalize(replay)
    r = ex.result()
    r["config"] = {"cls": "Auer", "N": N, "m": m, "widths": widths}
    return r


def replay(case):
    import vopy.confidence_region as cr
    N, m = case["N"], case["m"]
    eps = float(Fraction(from_frac_json(case["eps"])))
    c = np.array([[float(Fraction(x)) for x in row] for row in from_frac_json(case["c"])])
    beta = np.array([[float(Fraction(x)) for x in row] for row in from_frac_json(case["beta"])])
    S, P = (set(x) for x in case["pre"])
    a = A.build("Auer", N, m, None, None, eps, use_empirical_beta=(case["widths"] != "homogeneous"))
    a.design_space.confidence_regions = [cr.RectangularConfidenceRegion(m, c[i] - beta[i], c[i] + beta[i]) for i in range(N)]
    a.S, a.P = set(S), set(P)
    a.beta_t = np.array([beta[i] for i in list(a.S)])
    try:
        a.discarding()
        removed = S - set(a.S)
        a.pareto_updating()
    except Exception as ex:  # noqa
        return {"reproduced": True, "detail": "real Auer phases raised " + repr(ex), "exception": type(ex).__name__,
                "designs_removed_by_discarding": None}
    S2, P2 = set(a.S), set(a.P)
    # concrete reference with exact rationals
    cf = [[Fraction(float(x)) for x in row] for row in c]
    bf = [[Fraction(float(x)) for x in row] for row in beta]
    ef = Fraction(eps)
    small = lambda i, j: max(Fraction(0), min(cf[j][k] - cf[i][k] for k in range(m)))  # noqa
    big = lambda i, j: max(Fraction(0), max(cf[i][k] + ef - cf[j][k] for k in range(m)))  # noqa
    disc = {i for i in S if any(all(small(i, j) > bf[i][k] + bf[j][k] for k in range(m)) for j in S if j != i)}
    S1 = S - disc
    P1 = {i for i in S1 if not any(all(big(i, j) < bf[i][k] + bf[j][k] for k in range(m)) for j in S1 if j != i)}
    new = {p for p in P1 if not any(all(big(s, p) <= bf[p][k] + bf[s][k] for k in range(m)) for s in S1 - P1)}
    left = {i for i in S if i not in S2 and i not in P2}
    entered = P2 - P
    if case["prop"] == "C02":
        bad = left != disc
    else:
        bad = entered != new or not P <= P2 or bool(S2 & P2)
    return {"reproduced": bool(bad), "designs_removed_by_discarding": len(removed),
            "widths_differ_between_designs": bool(len({tuple(r) for r in beta.tolist()}) > 1),
            "detail": f"Auer from S={sorted(S)}: left={sorted(left)} (reference {sorted(disc)}), entered P={sorted(entered)} "
                      f"(reference {sorted(new)}); discarding removed {sorted(removed)}"}
