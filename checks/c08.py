"""C08 — NaiveElimination: P is the exact Pareto set of the running means (clause B, symbolic runs);
the default per-design sample count is (ε, δ)-PAC (clause A, formula level)."""
from __future__ import annotations

import math
from fractions import Fraction

import numpy as np
import z3

from symx import sym
from symx.arr import NpProxy, SymArray, symarray
from symx.explore import Explorer, Inconclusive, model_value
from symx.harness import Wz, cone_set, dotz, frac_json, from_frac_json, make_order, patched, src_info, zand, zor, zs
from symx.sym import HarnessError, Sym

from checks import algo as A
from checks.c20 import noise_task  # noqa: F401 (task entry point: the sampling oracle NaiveElimination draws from)
from checks.c19 import _alpha_for, exact_alpha

PROPERTY = "C08"


def _mod():
    return A.amod("NaiveElimination")


# -- clause B ------------------------------------------------------------------------------------
def means_task(cone, W, K, L, tier):
    mod = _mod()
    import vopy.order as vo
    import vopy.ordering_cone as oc
    W = np.asarray(W, dtype=float)
    m = W.shape[1]
    Wq = Wz(W)
    alpha = _alpha_for(W)
    ex = Explorer(f"naive_P[{cone},K={K},L={L}]", query_timeout_ms=60000, max_paths=200000)
    px = NpProxy()

    def body(ctx):
        a = A.build("NaiveElimination", K, m, W, alpha, 0.1, L=L)
        blocks = []

        class Prob:
            def evaluate(self_, x, **kw):
                if not np.array_equal(np.asarray(x, dtype=float), np.asarray(a.dataset.in_data, dtype=float)):
                    raise HarnessError("evaluate not called on the full design matrix")
                y = ctx.reals(f"y{len(blocks)}", K, m)
                blocks.append(y)
                return y
        a.problem = Prob()
        dom = lambda x, y: zand([dotz(r, [x[k] - y[k] for k in range(m)]) >= 0 for r in Wq])  # noqa
        for step in range(L + 2):
            pre_round, pre_cnt, pre_blocks = a.round, a.sample_count, len(blocks)
            with patched((mod, {"np": px}), (vo, {"np": px}), (oc, {"np": px})):
                ret = a.run_one_step()
                if a.round >= 1:
                    P = [int(i) for i in a.P]
            t = len(blocks)
            if pre_round >= L:
                ok = bool(ret) and a.round == pre_round and a.sample_count == pre_cnt and t == pre_blocks
                name = "steps after completion change nothing and take no samples"
            else:
                ok = a.round == pre_round + 1 and a.sample_count == pre_cnt + K and t == pre_blocks + 1 and \
                    bool(ret) == (a.round == L) and np.shape(a.samples) == (K, t, m) and \
                    all(a.samples[i, tt, k] is blocks[tt].view(np.ndarray)[i, k] for i in range(K) for tt in range(t) for k in range(m))
                name = "round/sample accounting; stored samples are exactly the returned observations"
            if not ok:
                mdl = ctx.satisfiable()
                ex.candidate(name, {"kind": "naive_run", "cone": cone, "W": W.tolist(), "K": K, "L": L, "step": step,
                                    "blocks": None}, {"claim": name})
                return
            if t == 0:
                continue
            means = [[sum((sym.to_z3(b.view(np.ndarray)[i, k]) for b in blocks), sym.rv(0)) / t for k in range(m)] for i in range(K)]
            strict = lambda j, i: z3.And(dom(means[j], means[i]), z3.Not(dom(means[i], means[j])))  # noqa
            sane = all(0 <= i < K for i in P) and all(x < y for x, y in zip(P, P[1:]))
            claim = z3.And(z3.BoolVal(sane),
                           zand([z3.Not(strict(j, i)) for i in P for j in range(K)]),
                           zand([zor([dom(means[i], means[k_]) for i in P]) for k_ in range(K)]),
                           zand([z3.Not(z3.And(dom(means[x], means[y]), dom(means[y], means[x])))
                                 for xi, x in enumerate(P) for y in P[xi + 1:]]))
            mdl = ctx.prove("P = exact Pareto set of the per-design means of all observations so far", claim)
            if mdl is not None:
                bl = [[[model_value(mdl, sym.to_z3(v)) for v in row] for row in b.view(np.ndarray)] for b in blocks]
                ex.candidate("P = exact Pareto set of the running means",
                             {"kind": "naive_run", "cone": cone, "W": W.tolist(), "K": K, "L": L, "step": step,
                              "blocks": frac_json(bl)}, {"claim": "P"})
                return
        ctx.witness("done")
        ctx.sample({"cone": cone, "K": K, "L": L, "final_P": P})

    ex.run(body)
    ex.finalize(replay)
    r = ex.result()
    r["config"] = {"cone": cone, "K": K, "L": L}
    return r


# -- clause A ------------------------------------------------------------------------------------
def _rho(delta):
    import mpmath as mp
    mp.mp.dps = 30
    # Φ^{-1}(1−δ) enclosed from below (a smaller ρ gives a weaker, still necessary, condition)
    z = mp.sqrt(2) * mp.erfinv(1 - 2 * mp.mpf(delta))
    return Fraction(str(mp.floor(z * 10**9) / 10**9))


def default_L_task(theta, delta, K, tier):
    """the real __init__ arithmetic for L on symbolic noise variance v and ε; necessary condition from the
    two-design instance with gap just above ε along the cone axis: the dominated design survives
    unless w_1·(ȳ_b − ȳ_a) ≥ 0, so PAC requires L ≥ 2σ²ρ²/(εα)² with ρ = Φ^{-1}(1−δ)"""
    mod = _mod()
    import vopy.order as vo
    import vopy.ordering_cone as oc
    with patched((oc, {"get_alpha_vec": lambda W: np.ones((2, 1))})):
        order = vo.ConeTheta2DOrder(theta)
    W = np.asarray(order.ordering_cone.W, dtype=float)
    alpha = float(exact_alpha(W)[0])
    rho = _rho(delta)
    ex = Explorer(f"default_L[θ={theta},δ={delta},K={K}]", query_timeout_ms=60000)

    def body(ctx):
        v, eps = ctx.real("noise_var"), ctx.real("eps")
        ctx.assume([v >= Fraction(1, 10**4), v <= 100, eps > 0, eps <= 2])

        class CeilVal:
            def __init__(self, s):
                self.s = s

            def astype(self, t):
                return self.s

        def ceil(x):
            ctx.counter += 1
            k = z3.Int(f"ceil_int!{ctx.counter}")
            c = Sym(z3.ToReal(k))
            ctx.fact([c.e >= sym.to_z3(x), c.e < sym.to_z3(x) + 1])
            return CeilVal(c)
        px = NpProxy(hooks={"ceil": ceil, "cholesky": lambda a_: np.eye(len(a_))})
        import vopy.maximization_problem as mp_
        ds = A.DSStub(K, 2)
        with patched((mod, {"np": px, "get_dataset_instance": lambda n: ds}), (mp_, {"np": px})):
            a = mod.NaiveElimination(eps, delta, "stub", order, v)
        L = sym.to_z3(a.L)
        ctx.witness("L")
        need = 2 * v.e * sym.rv(rho * rho) / (eps.e * eps.e * sym.rv(Fraction(alpha) ** 2))
        mdl = ctx.prove("default L ≥ necessary sample count of the two-design instance (PAC)", L >= need * sym.rv(Fraction(99, 100)))
        if mdl is not None:
            # steer to a clearly failing instance: L below half of the necessary count
            try:
                m2 = ctx.satisfiable([L * 2 <= need, eps.e >= Fraction(1, 20), v.e <= 1], timeout_ms=30000) or mdl
            except Inconclusive:
                m2 = mdl
            ex.candidate("default L is (ε, δ)-PAC on the two-design instance",
                         {"kind": "default_L", "theta": theta, "delta": delta, "K": K,
                          "noise_var": frac_json(model_value(m2, v.e)), "eps": frac_json(model_value(m2, eps.e))},
                         {"theta": theta, "delta": delta, "claim": "PAC"})
            return
        # sufficiency half, *given the paper's Lemma B.12*: L_code ≥ 4 (c σ β / ε)² ln(4m / (2δ/(K(K−1)))) with σ² = noise_var
        c = Fraction(1 + math.sqrt(2))
        # ordering complexity of the 2-D θ-cone from its closed form (1/sin θ below 90°, 1 otherwise), not from the code under test
        beta = Fraction(1 / math.sin(math.radians(theta)) if theta < 90 else 1.0)
        ln_arg = Fraction(math.log(4 * 2 / (2 * delta / (K * (K - 1))))) * (1 - Fraction(1, 10**12))
        paper = 4 * sym.rv(c * c * beta * beta * ln_arg) * v.e / (eps.e * eps.e)
        mdl = ctx.prove("default L ≥ the paper's bound 4(cσβ/ε)²·ln(·) with σ = √noise_var (sufficient by Lemma B.12)",
                        L >= paper * sym.rv(1 - Fraction(1, 10**9)))
        if mdl is not None:
            ex.candidate("default L below the paper's sufficient sample count",
                         {"kind": "paper_L", "theta": theta, "delta": delta, "K": K,
                          "noise_var": frac_json(model_value(mdl, v.e)), "eps": frac_json(model_value(mdl, eps.e))},
                         {"theta": theta, "delta": delta, "claim": "paper bound"})
            return
        ctx.sample({"theta": theta, "delta": delta, "K": K, "L_term": str(z3.simplify(L))[:120]})

    ex.run(body)
    ex.finalize(replay)
    r = ex.result()
    r["config"] = {"theta": theta, "delta": delta, "K": K, "alpha": alpha, "rho": float(rho)}
    return r


def replay(case):
    if case.get("kind") == "noise":
        from checks import c20
        return c20.replay(case)
    mod = _mod()
    import vopy.order as vo
    if case["kind"] == "paper_L":
        theta, delta, K = case["theta"], case["delta"], case["K"]
        v = float(Fraction(from_frac_json(case["noise_var"])))
        eps = float(Fraction(from_frac_json(case["eps"])))
        order = vo.ConeTheta2DOrder(theta)
        ds = A.DSStub(K, 2)
        with patched((mod, {"get_dataset_instance": lambda n: ds})):
            a = mod.NaiveElimination(eps, delta, "stub", order, v)
        beta = 1 / math.sin(math.radians(theta)) if theta < 90 else 1.0
        want = 4 * ((1 + math.sqrt(2)) * math.sqrt(v) * beta / eps) ** 2 * math.log(4 * 2 / (2 * delta / (K * (K - 1))))
        return {"reproduced": bool(int(a.L) < want * (1 - 1e-9)), "L": int(a.L),
                "detail": f"NaiveElimination(ε={eps}, δ={delta}, noise_var={v}, θ={theta}, K={K}).L = {int(a.L)} < paper's bound {want:.3f}"}
    if case["kind"] == "default_L":
        from scipy.stats import multivariate_normal
        theta, delta, K = case["theta"], case["delta"], case["K"]
        v = float(Fraction(from_frac_json(case["noise_var"])))
        eps = float(Fraction(from_frac_json(case["eps"])))
        order = vo.ConeTheta2DOrder(theta)
        W = np.asarray(order.ordering_cone.W, dtype=float)
        al = exact_alpha(W)
        ds = A.DSStub(K, 2)
        with patched((mod, {"get_dataset_instance": lambda n: ds})):
            a = mod.NaiveElimination(eps, delta, "stub", order, v)
        L = int(a.L)
        # two designs: μ_b − μ_a = g·(1,1)/√2 with gap(a) = 1.01 ε (a must not be returned)
        d = np.array([1.0, 1.0]) / math.sqrt(2)
        g = 1.01 * eps * al[0] / float(W[0] @ d)
        dmu = g * d
        cov = W @ W.T * (2 * v / max(L, 1))
        # success ⇔ W(Δμ + ξ) ≥ 0  ⇔  −Wξ ≤ WΔμ,  −Wξ ~ N(0, cov)
        p_succ = float(multivariate_normal(mean=np.zeros(2), cov=cov, allow_singular=True).cdf(W @ dmu))
        fail = 1 - p_succ
        return {"reproduced": bool(fail > delta * 1.2), "L": L, "failure_probability": fail,
                "detail": f"NaiveElimination(ε={eps}, δ={delta}, noise_var={v}, ConeTheta2D({theta}), K={K}).L = {L}; on two designs "
                          f"with gap 1.01·ε the dominated design is returned with probability {fail:.3f} > δ"}
    # naive_run
    W = np.array(case["W"], dtype=float)
    K, L = case["K"], case["L"]
    m = W.shape[1]
    alpha = _alpha_for(W)
    a = A.build("NaiveElimination", K, m, W, alpha, 0.1, L=L)
    if case["blocks"] is None:
        return {"reproduced": True, "detail": f"accounting clause violated at step {case['step']} (concrete on the path)"}
    blocks = [np.array([[float(Fraction(v)) for v in row] for row in b]) for b in from_frac_json(case["blocks"])]
    it = iter(blocks)

    class Prob:
        def evaluate(self, x, **kw):
            return next(it)
    a.problem = Prob()
    for _ in range(len(blocks)):
        a.run_one_step()
    P = [int(i) for i in a.P]
    mean = np.mean(np.stack(blocks, axis=1), axis=1)
    from checks.c13 import _exact_check
    bad = _exact_check(W, [[Fraction(float(x)) for x in row] for row in mean], P, "get_pareto_set")
    return {"reproduced": bool(bad), "detail": f"P={P} for means {mean.tolist()}: violated {bad}"}


def tasks(tier, seed):
    ts = []
    for cone, W in cone_set(tier, dims=(2,), seed=seed):
        if tier == "quick" and cone not in ("orthant2", "theta60", "theta120"):
            continue
        ts.append({"id": f"naive_P[{cone}]", "fn": "means_task",
                   "args": {"cone": cone, "W": W.tolist(), "K": 3, "L": 2 if tier == "quick" else 3, "tier": tier}, "weight": 50})
    # "Gaussian sampling noise of the configured variance": the dataset problem the algorithm samples from must add
    # noise whose covariance is noise_var·I (the same obligation as in C20, on the path NaiveElimination uses)
    ts.append({"id": "sampling_noise[dataset,m=2]", "fn": "noise_task", "args": {"kind": "dataset", "n": 2, "m": 2, "tier": tier}})
    for theta in ((10, 30, 60, 90, 120) if tier == "quick" else (5, 10, 20, 30, 45, 60, 75, 90, 120, 150)):
        for delta in ((0.05,) if tier == "quick" else (0.01, 0.05, 0.2)):
            for K in ((2, 32) if tier == "quick" else (2, 8, 32, 500)):
                ts.append({"id": f"default_L[θ={theta},δ={delta},K={K}]", "fn": "default_L_task",
                           "args": {"theta": theta, "delta": delta, "K": K, "tier": tier}})
    return ts


def meta(tier):
    cls = _mod().NaiveElimination
    import vopy.maximization_problem as mp_
    return {"level": "model_checking",
            "functions": src_info(cls.__init__, cls.run_one_step, cls.P, mp_.ProblemFromDataset.__init__, mp_.ProblemFromDataset.evaluate),
            "bounds": {"clause B": "K = 3 designs, L ≤ 2 (3 thorough) rounds, m = 2, 2-D cones of the set",
                       "clause A": "noise_var ∈ [1e-4, 1e2], ε ∈ (0, 2] symbolic; θ, δ, K on a grid"},
            "stubs": ["recording problem returning fresh symbolic observation blocks", "np.ceil: c with x ≤ c < x+1",
                      "np.log at concrete arguments (real numpy)"],
            "assumptions": ["clause A is a necessary condition only: the two-design instance with gap just above ε along the cone "
                            "axis; Gaussian sampling noise; Φ^{-1}(1−δ) from mpmath, rounded down",
                            "sufficiency of L for arbitrary design sets is the paper's lemma (not decided here)",
                            "floats are encoded as exact reals"],
            "explanation": "clause B: the real run_one_step / P code on symbolic observations, P proved equal to the exact Pareto "
                           "set of the arithmetic means after every round; clause A: the symbolic term the real constructor "
                           "computes for L is proved (NRA) to dominate the two-design necessary sample count"}
