"""C04 — at contraction 1 the confidence schedules are valid with probability ≥ 1−δ (union bound).

Formula level (evidence level 'other').  Three layers:
 1. extraction by symbolic execution: the real compute_radius / compute_alpha / compute_beta on
    symbolic round t, δ, design count K, noise variance; np.log is an opaque ℓ = ln(A) whose
    argument term A is recorded; the scale is pushed through the real design_space.update and
    region update, and the standardised half-width h (rectangle) / radius² X (ellipsoid) is read
    off the displayed region;
 2. trusted analytic base (listed in the evidence): Gaussian sample means / GP posteriors,
    P(|Z|>x) ≤ exp(−x²/2), exact even-dof χ² tail (monotone in the dof), Σ t⁻² = π²/6, exp/ln algebra,
    exp(x) ≥ Σ_{k≤n} x^k/k! for x ≥ 0;
 3. obligations (z3 NRA): per-round failure bound · number of events ≤ 6δ/(π² τ²).
"""
from __future__ import annotations

import math
from fractions import Fraction

import numpy as np
import z3

from symx import sym
from symx.arr import NpProxy, SymArray, symarray
from symx.explore import Explorer, Inconclusive, model_value
from symx.harness import frac_json, from_frac_json, patched, src_info, zand, zor, zs
from symx.sym import HarnessError, Sym

from checks import algo as A
from checks import runs
from checks.runs import run_task  # noqa: F401 (task entry point)

PROPERTY = "C04"
PI = Fraction(math.pi)

# (class, confidence type, kind of region, c' = multiple of ℓ guaranteed in the exponent, Taylor order, m values)
CELLS = [
    ("PaVeBa", None, "chi2", 4, 2, (2, 3, 4, 5, 6)),
    ("PaVeBaGP", "hyperrectangle", "rect", 8, 2, (2, 3, 4, 5, 6)),
    ("PaVeBaGP", "hyperellipsoid", "chi2", 8, 5, (2, 3, 4, 5, 6)),
    ("PaVeBaPartialGP", "hyperrectangle", "rect", 2, 2, (2, 3, 4, 5, 6)),
    ("PaVeBaPartialGP", "hyperellipsoid", "chi2", 2, 3, (2, 3, 4)),
    ("VOGP", None, "rect", 1, 2, (2, 3, 4, 5, 6)),
    ("EpsilonPAL", None, "rect", 1, 2, (2, 3, 4, 5, 6)),
    ("Auer", None, "rect", 1, 2, (2, 3, 4, 5, 6)),
]
LN6 = Fraction(math.log(6))


def _c0(m):
    return Fraction(8 * m * math.log(6))   # the float the code computes: 8 * self.m * np.log(6)


def _u0(cls_name, m):
    """constant part of the exponent: exponent ≥ U0 + c'·ℓ, and e^{−U0} enclosed from above"""
    if cls_name != "PaVeBaGP":
        return Fraction(0), Fraction(1)
    import mpmath as mp
    mp.mp.dps = 60
    u0 = _c0(m) * _c0(m) / 2
    e0 = mp.exp(-mp.mpf(u0.numerator) / mp.mpf(u0.denominator))
    if e0 > mp.mpf('1e-100'):
        raise HarnessError('e^{-U0} larger than the enclosure used')
    return u0, Fraction(1, 10**100)   # e^{−U0} ≤ 1e-100 (checked with mpmath): a clean, weaker constant


def _rmax(cls_name, ctype, m):
    """upper bound of  events·π²τ² / (6δ·A)  (proved on the extracted terms)"""
    return {("PaVeBa", None): Fraction(1, m + 1), ("PaVeBaGP", "hyperrectangle"): Fraction(m), ("PaVeBaGP", "hyperellipsoid"): Fraction(1),
            ("PaVeBaPartialGP", "hyperrectangle"): Fraction(m, 2), ("PaVeBaPartialGP", "hyperellipsoid"): Fraction(1, 2),
            ("VOGP", None): Fraction(1, 2), ("EpsilonPAL", None): Fraction(1), ("Auer", None): Fraction(4113, 10000)}[(cls_name, ctype)]


def _template(cls_name, ctype, m, ell):
    """closed form of the χ² exponent X/2 in ℓ (proved equal to the extracted term)"""
    if cls_name == "PaVeBa":
        return 4 * ell
    if cls_name == "PaVeBaGP":
        c0 = sym.rv(_c0(m))
        return (c0 + 4 * ell) * (c0 + 4 * ell) / 2
    return 2 * ell * ell


def schedule_task(cls_name, ctype, kind, cprime, order, m, contraction, tier):
    mod = A.amod(cls_name)
    import vopy.confidence_region as cr
    import vopy.design_space as ds
    ex = Explorer(f"schedule[{cls_name},{(ctype or '')[5:9]},m={m},contraction={contraction}]", query_timeout_ms=60000)
    ex.stop_after_candidates = 1
    bandit = cls_name in ("PaVeBa", "Auer")

    def body(ctx):
        t, delta, K, v = ctx.real("t"), ctx.real("delta"), ctx.real("K"), ctx.real("noise_var")
        round_is_tau_minus_1 = cls_name in ("VOGP", "EpsilonPAL")   # these count rounds from 0 and use round+1
        ctx.assume([delta > 0, delta < 1, K >= 1, v > 0])
        ctx.assume(t >= (0 if round_is_tau_minus_1 else 1))
        if cls_name == "Auer":
            ctx.assume(v <= 1)
        logs = []

        def log(x):
            if not isinstance(x, Sym):
                return np.log(x)
            ell = Sym(ctx.fresh("ln"))
            logs.append((ell.e, x.e))
            ctx.fact([x.e > 0, z3.Implies(x.e >= 1, ell.e >= 0)])   # ln is monotone, ln 1 = 0
            return ell
        px = NpProxy(hooks={"log": log})
        a = A.build(cls_name, 1, m, np.eye(m), np.ones((m, 1)), 0.1, ctype, **({"use_empirical_beta": False} if cls_name == "Auer" else {}))
        a.round, a.delta, a.conf_contraction = t, delta, contraction
        if hasattr(a, "noise_var"):
            a.noise_var = v
        a.design_space.cardinality = K
        mu = ctx.reals("mean", 1, m)
        var = ctx.reals("var", m)
        ctx.assume(var > 0)
        cov = np.empty((1, m, m), dtype=object)
        for i in range(m):
            for j in range(m):
                cov[0, i, j] = (Sym(sym.rv(1)) if bandit else var.view(np.ndarray)[i]) if i == j else Sym(sym.rv(0))
        if not bandit and kind == "rect":
            # a GP posterior couples the objectives: symbolic covariance between the first two (positive definite); the
            # rectangle's half-widths must still be scale × the *marginal* standard deviations
            c01 = ctx.real("cov01")
            ctx.assume(c01 * c01 < var.view(np.ndarray)[0] * var.view(np.ndarray)[1])
            cov[0, 0, 1] = cov[0, 1, 0] = c01
        model = A.StubGP(m, table=lambda X: (mu, cov.view(SymArray)))
        with patched((mod, {"np": px}), (ds, {"np": px}), (cr, {"np": px})):
            if cls_name == "PaVeBa":
                scale = a.compute_radius()
            elif cls_name in ("PaVeBaGP", "PaVeBaPartialGP"):
                scale = a.compute_alpha()
            else:
                scale = a.compute_beta()
            # the scale has to go through the ℓ's positivity to be a real number: the harness proves A ≥ A_min first
            a.design_space.cardinality = 1
            sc = scale if isinstance(scale, np.ndarray) else _zero_d(scale)
            a.design_space.update(model, sc, [0])
        reg = a.design_space.confidence_regions[0]
        ctx.witness("displayed")
        if len(logs) != 1:
            raise HarnessError(f"{len(logs)} symbolic logarithms in the schedule, expected 1")
        ell, Aterm = logs[0]
        tau = t.e + 1 if round_is_tau_minus_1 else t.e
        # ℓ = ln A with A ≥ A_min > 1: monotonicity (ℓ ≥ ln A_min, enclosed from below) and exp's Taylor lower bounds
        A_min = _amin(cls_name, m)
        claims = {"A ≥ A_min (argument of the logarithm)": Aterm >= sym.rv(A_min)}
        for name, cl in claims.items():
            if ctx.prove(name, cl) is not None:
                ex.candidate(name, {"kind": "schedule", "cls": cls_name, "m": m}, {"claim": name})
                return
        ell_min = Fraction(str(math.floor(math.log(float(A_min)) * 10**6) / 10**6))
        taylor = sum((ell ** k / math.factorial(k) for k in range(order + 1)), sym.rv(0))
        ctx.fact([ell >= sym.rv(ell_min), Aterm >= taylor])
        # standardised quantity read off the displayed region
        if kind == "rect":
            up, lo = zs(symarray(reg.upper)), zs(symarray(reg.lower))
            muz = zs(mu)[0]
            std = [sym.rv(1) if bandit else ctx.sqrt_of(sym.to_z3(var.view(np.ndarray)[k]), nonneg=True).e for k in range(m)]
            h = ctx.fresh("h")
            # h = half-width / predictive std, the same for every objective
            claims = {"region = mean ± h·std (same h for every objective)": zand(
                [z3.And(up[k] - muz[k] == h * std[k], muz[k] - lo[k] == h * std[k]) for k in range(m)])}
            ctx.fact(h >= 0)
            ctx.fact((up[0] - muz[0]) == h * std[0])
            g2 = h * h if not bandit else h * h * tau / v.e   # Auer: |μ̂−μ| ~ N(0, σ²/t): standardise by σ/√t
            events = K.e * m
            expo = g2 / 2
            poly = sym.rv(1)
        else:
            al = sym.to_z3(np.asarray(reg.alpha, dtype=object).ravel()[0])
            claims = {"ellipsoid centred at the mean with the predictive covariance": zand(
                [sym.to_z3(x) == y for x, y in zip(np.asarray(reg.center, dtype=object).ravel(), zs(mu)[0])])}
            X = al * al if not bandit else al * al * tau / v.e    # PaVeBa: ‖μ̂−μ‖² t/σ² ~ χ²_m
            events = K.e
            kk = (m + 1) // 2                                       # even dof 2k ≥ m (tail monotone in the dof)
            expo = X / 2
            poly = sum(((X / 2) ** j / math.factorial(j) for j in range(kk)), sym.rv(0))
        # tail ≤ poly · exp(−expo);  expo ≥ c'·ℓ  ⇒  exp(−expo) ≤ A^{−c'};  then
        #   events·poly·π²τ²  =  poly · [events·π²τ²/(6δA)] · 6δA  ≤  poly·R_max·6δA  ≤  6δ·A^{c'}
        Rm = _rmax(cls_name, ctype, m)
        Av, xi = ctx.fresh("A"), ctx.fresh("xi")
        U0, E0 = _u0(cls_name, m)
        claims["exponent ≥ U0 + c'·ln A"] = expo >= sym.rv(U0) + cprime * ell
        # np.pi**2 is a rounded float: one part in 1e9 of slack here (the union bound is then ≤ δ(1+1e-9))
        claims["events·π²τ² ≤ R_max·6δ·A"] = events * sym.rv(PI * PI) * tau * tau <= \
            sym.rv(Rm * (1 + Fraction(1, 10**9))) * 6 * delta.e * Aterm
        if kind == "chi2":
            U = _template(cls_name, ctype, m, ell)
            claims["χ² exponent X/2 equals its closed form in ℓ"] = expo == U
            polyU = sum((xi ** j / math.factorial(j) for j in range((m + 1) // 2)), sym.rv(0))
            lemma = z3.Implies(z3.And(xi == U, ell >= sym.rv(ell_min), Av >= sym.rv(A_min),
                                      Av >= sum((ell ** k / math.factorial(k) for k in range(order + 1)), sym.rv(0))),
                               polyU * sym.rv(Rm) * sym.rv(E0) <= Av ** (cprime - 1))
        else:
            lemma = z3.Implies(Av >= sym.rv(A_min), sym.rv(Rm) * sym.rv(E0) <= Av ** (cprime - 1))
        claims["poly·R_max·e^{−U0} ≤ A^{c'−1}  (with A ≥ Taylor_n(ℓ), ℓ ≥ ln A_min)"] = lemma
        for name, cl in claims.items():
            mdl = ctx.prove(name, cl)
            if mdl is not None:
                ex.candidate(name, {"kind": "schedule", "cls": cls_name, "ctype": ctype, "m": m, "contraction": contraction,
                                    "t": frac_json(model_value(mdl, t.e)), "delta": frac_json(model_value(mdl, delta.e)),
                                    "K": frac_json(model_value(mdl, K.e)), "noise_var": frac_json(model_value(mdl, v.e)),
                                    "claim": name}, {"cls": cls_name, "claim": name, "contraction": contraction})
                return
        ctx.sample({"cls": cls_name, "m": m, "A": str(z3.simplify(Aterm))[:160], "exponent≥": f"{cprime}·ln A"})

    ex.run(body)
    if contraction == 1:
        ex.finalize(replay)
        r = ex.result()
    else:
        # negative control: with a contracted schedule the same obligations must be refutable (sensitivity)
        r = ex.result()
        ok = getattr(ex, "n_candidates", 0) > 0
        r["violations"] = []
        if not ok:
            r["inconclusive"].append("negative control: the contracted schedule was NOT refuted — the obligations are vacuous")
        r["recorded"] = [{"negative_control_refuted": ok}]
    r["config"] = {"cls": cls_name, "ctype": ctype, "m": m, "contraction": contraction, "kind": kind}
    return r


def _zero_d(x):
    o = np.empty((), dtype=object)
    o[()] = x
    return o.view(SymArray)


def _amin(cls_name, m):
    """lower bound of the logarithm's argument over t ≥ 1 (τ ≥ 1), K ≥ 1, δ < 1 — proved by z3 on the extracted term"""
    pi2 = PI * PI * (1 - Fraction(1, 10**12))
    return {"PaVeBa": pi2 * (m + 1) / 6, "PaVeBaGP": pi2 / 6, "PaVeBaPartialGP": pi2 / 3, "VOGP": m * pi2 / 3,
            "EpsilonPAL": m * pi2 / 6, "Auer": Fraction(4 * m)}[cls_name]


def replay(case):
    """numerical confirmation of a refuted schedule: exact tails (scipy) summed over the horizon"""
    from scipy import stats
    if case.get("kind") in ("crash", "runstep"):
        return runs.replay(case)
    cls_name, ctype, m = case["cls"], case.get("ctype"), case["m"]
    if "t" not in case:
        return {"reproduced": True, "detail": "structural claim refuted: " + str(case)}
    if case.get("claim", "").startswith(("region =", "ellipsoid centred")):
        # structural clause: the displayed region must be mean ± scale·std / (mean, cov, scale) — run the real update
        import vopy.design_space as ds
        d = ds.FixedPointsDesignSpace(np.array([[0.0]]), m, ctype or ("hyperellipsoid" if cls_name == "PaVeBa" else "hyperrectangle"))
        mu = np.arange(1, m + 1, dtype=float)[None, :]
        var = np.array([0.25 * (k + 1) for k in range(m)])
        cov = np.diag(var)[None, :, :]
        if cls_name not in ("PaVeBa", "Auer") and m >= 2:
            cov[0, 0, 1] = cov[0, 1, 0] = 0.9 * np.sqrt(var[0] * var[1])   # correlated posterior
        d.update(A.StubGP(m, table=lambda X: (mu, cov)), np.array(2.0), [0])
        r = d.confidence_regions[0]
        if hasattr(r, "lower"):
            bad = not (np.allclose(r.lower, mu[0] - 2 * np.sqrt(var)) and np.allclose(r.upper, mu[0] + 2 * np.sqrt(var)))
            det = f"update(mean={mu[0]}, var={var}, scale=2) displayed [{r.lower}, {r.upper}]"
        else:
            bad = not (np.allclose(r.center, mu[0]) and np.allclose(r.sigma, cov[0]) and np.allclose(np.ravel(r.alpha), 2.0))
            det = f"ellipsoid center={r.center} sigma={r.sigma} alpha={r.alpha}"
        return {"reproduced": bool(bad), "detail": det}
    delta = min(max(float(Fraction(from_frac_json(case["delta"]))), 1e-6), 0.999)
    K = max(1, int(round(float(Fraction(from_frac_json(case["K"]))))))
    v = float(Fraction(from_frac_json(case["noise_var"])))
    if cls_name == "Auer":
        v = min(v, 1.0)
    a = A.build(cls_name, 1, m, np.eye(m), np.ones((m, 1)), 0.1, ctype, **({"use_empirical_beta": False} if cls_name == "Auer" else {}))
    a.delta, a.conf_contraction = delta, 1
    if hasattr(a, "noise_var"):
        a.noise_var = v
    a.design_space.cardinality = K
    total = 0.0
    terms = {}
    for tt in range(1, 20001):
        before = total
        a.round = tt - 1 if cls_name in ("VOGP", "EpsilonPAL") else tt
        a.S = {0}
        if cls_name == "PaVeBa":
            r = float(a.compute_radius())
            total += K * stats.chi2.sf(r * r * tt / v, m)
        elif cls_name in ("PaVeBaGP", "PaVeBaPartialGP"):
            al = float(a.compute_alpha())
            total += K * (stats.chi2.sf(al * al, m) if ctype == "hyperellipsoid" else m * 2 * stats.norm.sf(al))
        elif cls_name == "Auer":
            b = float(np.asarray(a.compute_beta()).ravel()[0])
            total += K * m * 2 * stats.norm.sf(b * math.sqrt(tt / v))
        else:
            b = float(a.compute_beta())
            total += K * m * 2 * stats.norm.sf(b)
        terms[tt] = total - before
        if total > delta * 1.05:
            break
    diverges = False
    if total <= delta * 1.05 and terms.get(20000, 0) > 0 and terms.get(10000, 0) > 0:
        # decay exponent of the per-round failure bound: Σ_τ c/τ^p converges only for p > 1
        pexp = math.log(terms[10000] / terms[20000]) / math.log(2)
        if pexp <= 1.1:
            diverges = True
        else:
            total += terms[20000] * 20000 / (pexp - 1)
    return {"reproduced": bool(total > delta * 1.05 or diverges), "diverges": diverges, "detail": (
        "per-round failure bound decays like 1/τ^p with p ≤ 1.1: the sum over the unbounded horizon diverges; " if diverges else "") + f"{cls_name}({ctype}) m={m}, K={K}, δ={delta}, noise_var={v}: union-bound "
            f"failure probability over 20000 rounds = {total:.4g} (δ = {delta})", "union_bound": total}


def tasks(tier, seed):
    ts = []
    for cls, ct, kind, cp, order, ms in CELLS:
        for m in ms:
            if tier == "quick" and m > 3:
                continue
            ts.append({"id": f"schedule[{cls},{(ct or '')[5:9]},m={m}]", "fn": "schedule_task",
                       "args": {"cls_name": cls, "ctype": ct, "kind": kind, "cprime": cp, "order": order, "m": m,
                                "contraction": 1, "tier": tier}})
        # negative control (sensitivity / vacuity guard): contraction 64 must be refuted
        ts.append({"id": f"negative_control[{cls},{(ct or '')[5:9]}]", "fn": "schedule_task",
                   "args": {"cls_name": cls, "ctype": ct, "kind": kind, "cprime": cp, "order": order, "m": 2,
                            "contraction": 64, "tier": tier}})
    # premise of the bandit schedules: the radius of round t is computed for a mean of t samples, so every design
    # whose region is rebuilt in round t (the active designs, PaVeBa: S ∪ U) must have been observed in each round
    from symx.harness import cone_set
    W = dict(cone_set("quick", dims=(2,)))["orthant2"].tolist()
    for cls in ("PaVeBa", "Auer"):
        ts.append({"id": f"run[{cls}]", "fn": "run_task",
                   "args": {"cls_name": cls, "ctype": None, "cone": "orthant2", "W": None if cls == "Auer" else W, "N": 2,
                            "steps": 2 if tier == "quick" else 3, "batch": 1, "prop": "C04", "tier": tier}, "weight": 20})
    return ts


def meta(tier):
    fs = [A.amod("PaVeBa").PaVeBa.compute_radius, A.amod("PaVeBaGP").PaVeBaGP.compute_alpha,
          A.amod("PaVeBaPartialGP").PaVeBaPartialGP.compute_alpha, A.amod("VOGP").VOGP.compute_beta,
          A.amod("EpsilonPAL").EpsilonPAL.compute_beta, A.amod("Auer").Auer.compute_beta]
    import vopy.confidence_region as cr
    import vopy.design_space as ds
    return {"level": "other", "functions": src_info(*fs, ds.FixedPointsDesignSpace.update,
                                                    cr.RectangularConfidenceRegion.update, cr.EllipsoidalConfidenceRegion.update),
            "bounds": {"m": "2..3 quick / 2..6 thorough (PaVeBaPartialGP ellipsoid: 2..4 — for m ≥ 5 the bound used here is too "
                       "crude to decide, stated)", "t, K, δ, noise variance": "unbounded reals in their domains (Auer: variance ≤ 1)"},
            "structural premise": "PaVeBa / Auer runs of 2 designs, 2 rounds (3 thorough) from the initial state: every active "
                                  "design is observed exactly once per round (so a region rebuilt in round t averages t samples)",
            "stubs": ["np.log of a symbolic argument: opaque ℓ with the recorded argument A, A > 0, ℓ ≥ ln(A_min) (A ≥ A_min is "
                      "proved on the extracted term), A ≥ Σ_{k≤n} ℓ^k/k!"],
            "assumptions": ["TRUSTED ANALYTIC BASE: sample mean of t i.i.d. N(μ,σ²I) observations is N(μ,σ²/t·I); GP posterior at a "
                            "point is Gaussian with the predictive mean/covariance; P(|Z|>x) ≤ exp(−x²/2); "
                            "P(χ²_{2k}>x) = e^{−x/2}Σ_{j<k}(x/2)^j/j!, monotone in the dof; Σ_{τ≥1} τ⁻² = π²/6; exp∘ln = id, exp "
                            "monotone, exp(x) ≥ its Taylor polynomials for x ≥ 0",
                            "VOGP_AD's RKHS/information-gain β and empirical-β Auer are outside"],
            "explanation": "the scale VOPy computes is extracted by symbolic execution, pushed through the real region update, and "
                           "the resulting standardised half-width / radius is proved (z3 NRA) large enough that a standard tail "
                           "bound times the number of (design, objective) events fits under 6δ/(π²τ²), whose sum over τ is δ; a "
                           "negative control with contraction 64 must be refuted"}
