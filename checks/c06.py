"""C06 — runs are monotone, terminate cleanly, never crash, and account for every sample."""
from __future__ import annotations

import numpy as np

from symx.harness import cone_set, src_info
from checks import algo as A
from checks import runs
from checks.runs import run_task, replay  # noqa: F401 (task entry points)

PROPERTY = "C06"
ALL = ("PaVeBa", "PaVeBaGP", "PaVeBaPartialGP", "VOGP", "VOGP_AD", "EpsilonPAL", "Auer", "NaiveElimination", "DecoupledGP")


def sweep_task(tier):
    """configuration sweep with the REAL region predicates (real cvxpy) on a seeded random stub
    posterior: every (algorithm, confidence type, cone incl. 3-D and K > m, batch size) cell runs
    6 steps; any exception is a violation ('each step completes without error')."""
    out = {"harness": "config_sweep(real predicates)", "paths": 0, "transitions": 0, "queries": {}, "solver_s": 0.0,
           "violations": [], "inconclusive": [], "obligations": {}, "samples": [], "recorded": []}
    cones = {c: w for c, w in cone_set("thorough", dims=(2, 3))}
    names = ["orthant2", "theta60", "theta120", "orthant3", "3d_acute", "3d_obtuse", "icecream_K4"] + \
        ([] if tier == "quick" else ["icecream_K6", "rand2d_0", "rand3d_0"])
    seeds = range(3) if tier == "quick" else range(10)
    for cone in names:
        W = cones[cone]
        K, m = W.shape
        cells = [("PaVeBa", None), ("PaVeBaGP", "hyperrectangle"), ("PaVeBaGP", "hyperellipsoid"),
                 ("PaVeBaPartialGP", "hyperrectangle"), ("PaVeBaPartialGP", "hyperellipsoid"), ("VOGP", None),
                 ("NaiveElimination", None)]
        if cone.startswith("orthant"):
            cells += [("EpsilonPAL", None), ("Auer", None)]
        for cls, ct in cells:
            for batch in ((1, 4) if cls in ("PaVeBaGP", "PaVeBaPartialGP", "VOGP", "EpsilonPAL") else (1,)):
                case = {"kind": "crash", "cls": cls, "ctype": ct, "cone": cone, "W": None if cls == "Auer" else W.tolist(),
                        "N": 3, "batch": batch, "exception": None}
                fails = runs._concrete_run(case, seeds=seeds, steps=6)
                out["paths"] += len(list(seeds))
                if fails:
                    s, e = fails[0]
                    case["exception"] = type(e).__name__
                    out["violations"].append({
                        "obligation": "each step completes without error (real predicates)", "case": case, "reproduced": True,
                        "replay_detail": f"{cls}({ct}, cone={cone}, batch={batch}) seed {s}: {type(e).__name__}: {str(e)[:160]}",
                        "features": {"cls": cls, "exception": type(e).__name__, "batch": batch, "K_ne_m": bool(K != m),
                                     "region": A.region_type(cls, ct), "raised_in": runs._where(e), "cone": cone}})
                out["recorded"].append({"cls": cls, "ctype": ct, "cone": cone, "batch": batch, "failed_seeds": len(fails)})
    out["transitions"] = out["paths"]
    out["concrete_validations"] = out["paths"]
    out["samples"] = out["recorded"][:3]
    out["recorded"] = out["recorded"][:12]
    return out


def tasks(tier, seed):
    ts = []
    cs = {c: w for c, w in cone_set("thorough", dims=(2, 3))}
    for cls, ct, cone, W in runs.cells(tier):
        N, steps = (1, 3) if cls == "VOGP_AD" else (2, 2 if tier == "quick" else 3)
        if cls == "PaVeBaPartialGP":
            steps = 2   # three steps with symbolic costs and budget: over 90 min per task (rectangles), inconclusive for ellipsoids
        ts.append({"id": f"run[{cls},{(ct or '')[5:9]},{cone},q=1]", "fn": "run_task",
                   "args": {"cls_name": cls, "ctype": ct, "cone": cone, "W": None if W is None else W.tolist(), "N": N,
                            "steps": steps, "batch": 1, "prop": "C06", "tier": tier,
                            "budget": "sym" if cls == "PaVeBaPartialGP" else None}, "weight": 100})
    # batch larger than the remaining active set
    for cls, ct in (("PaVeBaGP", "hyperrectangle"), ("PaVeBaPartialGP", "hyperellipsoid"), ("VOGP", None), ("EpsilonPAL", None)):
        ts.append({"id": f"run[{cls},q=3>active]", "fn": "run_task",
                   "args": {"cls_name": cls, "ctype": ct, "cone": "orthant2", "W": cs["orthant2"].tolist(), "N": 2,
                            "steps": 1 if cls == "PaVeBaPartialGP" else 2, "batch": 3, "prop": "C06", "tier": tier}, "weight": 100})
    for cls in ("NaiveElimination", "DecoupledGP"):
        ts.append({"id": f"run[{cls}]", "fn": "run_task",
                   "args": {"cls_name": cls, "ctype": None, "cone": "orthant2", "W": cs["orthant2"].tolist(), "N": 2,
                            "steps": 2, "batch": 1, "prop": "C06", "tier": tier}, "weight": 100})
    ts.append({"id": "run[DecoupledGP,q=2]", "fn": "run_task",
               "args": {"cls_name": "DecoupledGP", "ctype": None, "cone": "theta120", "W": cs["theta120"].tolist(), "N": 2,
                        "steps": 1, "batch": 2, "prop": "C06", "tier": tier}, "weight": 100})
    if tier != "quick":
        for cls, ct in (("PaVeBa", None), ("VOGP", None), ("PaVeBaGP", "hyperrectangle")):
            ts.append({"id": f"run[{cls},N=3,k=1]", "fn": "run_task",
                       "args": {"cls_name": cls, "ctype": ct, "cone": "theta60", "W": cs["theta60"].tolist(), "N": 3,
                                "steps": 1, "batch": 1, "prop": "C06", "tier": tier}, "weight": 300})
    for cls, ct in (("PaVeBa", None), ("Auer", None)):
        ts.append({"id": f"run[{cls},sparse S={{8,1}}]", "fn": "run_task",
                   "args": {"cls_name": cls, "ctype": ct, "cone": "orthant2", "W": None if cls == "Auer" else cs["orthant2"].tolist(),
                            "N": 9, "steps": 2, "batch": 1, "prop": "C06", "tier": tier, "initial_S": [8, 1]}, "weight": 100})
    ts.append({"id": "config_sweep", "fn": "sweep_task", "args": {"tier": tier}, "weight": 500})
    return ts


def meta(tier):
    fs = [getattr(getattr(A.amod(c), c), "run_one_step") for c in ALL]
    import vopy.acquisition.acquisition as aq
    return {"level": "model_checking", "functions": src_info(*fs, aq.optimize_acqf_discrete, aq.optimize_decoupled_acqf_discrete),
            "bounds": {"N": "2 designs (VOGP_AD: from the root, depth ≤ 3)", "steps": "2 (3 thorough; PaVeBaPartialGP with symbolic costs and budget: 2 in both tiers) + 2 calls after completion",
                       "batch": "1 and 3 (> active set)", "cones": "orthant2, theta120 (free-oracle runs); 7-10 cones incl. 3-D "
                       "and K > m in the real-predicate configuration sweep"},
            "stubs": ["free-oracle region predicates (a superset of all real behaviours: safety clauses proved here hold on "
                      "real runs)", "stub posterior: fresh symbolic prediction per predict() call", "recording problem",
                      "VOGP_AD: β any positive scale, should_refine_design nondeterministic below the max depth",
                      "DecoupledGP: Thompson-entropy acquisition values as an arbitrary symbolic table"],
            "assumptions": ["floats are encoded as exact reals", "real GP numerics (Cholesky failures, jitter) are outside",
                            "the 'never crash' clause with the real region predicates is decided on a finite configuration "
                            "sweep with seeded stub posteriors (concrete), not symbolically"],
            "explanation": "k consecutive real run_one_step() calls on symbolic predictions/observations/costs/budget; every "
                           "prefix satisfies the monotonicity, termination and accounting clauses on every path"}
