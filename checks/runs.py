"""checks.runs — k consecutive run_one_step() calls of the real algorithm classes on stub posterior,
recording problem and free-oracle region predicates (serves C06 and the algorithm level of C07)."""
from __future__ import annotations

import itertools
from fractions import Fraction

import numpy as np
import z3

from symx import cpshim, sym
from symx.arr import NpProxy, SymArray, symarray
from symx.explore import Explorer, Inconclusive, model_value
from symx.harness import cone_set, frac_json, from_frac_json, make_order, patched, zand, zor, zs
from symx.sym import HarnessError, Sym

from checks import algo as A
from checks.c19 import _alpha_for

ELIM = A.PAVEBA + A.PESS + ("Auer",)


class RecProblem:
    """recording problem: returns fresh symbolic observations, logs every evaluation request"""

    def __init__(self, ctx, m, decoupled=False):
        self.ctx, self.m, self.decoupled = ctx, m, decoupled
        self.calls = []
        self.depth_max, self.in_dim, self.out_dim = 3, 1, m

    def evaluate(self, x, evaluation_index=None, **kw):
        x = np.asarray(x)
        n = len(x)
        k = len(self.calls)
        if evaluation_index is None:
            y = self.ctx.reals(f"obs{k}", n, self.m)
            rows = [(x[r], None) for r in range(n)]
        else:
            idx = [int(i) for i in np.asarray(evaluation_index).ravel()]
            if len(idx) != n:
                raise ValueError("evaluation_index length")
            y = self.ctx.reals(f"obs{k}", n)
            rows = [(x[r], idx[r]) for r in range(n)]
        self.calls.append({"x": x, "eval": evaluation_index, "y": y, "rows": rows})
        return y

    def rows(self):
        return [r for c in self.calls for r in c["rows"]]


class FreshGP(A.StubGP):
    """stub posterior: a fresh symbolic prediction per predict() call (covers any model behaviour)"""

    def __init__(self, ctx, m):
        super().__init__(m)
        self.ctx = ctx
        self.output_dim = m
        self.returned = []

    def predict(self, X):
        X = np.asarray(X)
        k = len(self.returned)
        n = len(X)
        mu = self.ctx.reals(f"mu{k}", n, self.m)
        var = self.ctx.reals(f"var{k}", n, self.m)
        self.ctx.assume(var > 0)
        cov = np.empty((n, self.m, self.m), dtype=object)
        for r in range(n):
            for a in range(self.m):
                for b in range(self.m):
                    cov[r, a, b] = var.view(np.ndarray)[r, a] if a == b else Sym(sym.rv(0))
        self.returned.append({"X": X, "mu": mu, "var": var})
        return mu, cov.view(SymArray)


def _modules(cls_name):
    import vopy.acquisition.acquisition as aq
    import vopy.confidence_region as cr
    import vopy.design_space as ds
    import vopy.models.empirical_mean_var as em
    import vopy.order as vo
    import vopy.ordering_cone as oc
    import vopy.utils.utils as uu
    return A.amod(cls_name), aq, cr, ds, em, vo, oc, uu


def snapshot(a):
    hasP = not isinstance(getattr(type(a), "P", None), property) and isinstance(getattr(a, "P", None), set)
    return {"S": set(getattr(a, "S", set())), "P": set(a.P) if hasP else None,
            "U": set(getattr(a, "U", set())), "round": a.round, "sample_count": a.sample_count,
            "total_cost": getattr(a, "total_cost", None)}


def run_task(cls_name, ctype, cone, W, N, steps, batch, prop, tier, budget=None, initial_S=None, initial_P=None):
    W = np.asarray(W, dtype=float) if W is not None else None
    mod, aq, cr, ds, em, vo, oc, uu = _modules(cls_name)
    m = W.shape[1] if W is not None else 2
    K = W.shape[0] if W is not None else m
    alpha = _alpha_for(W) if W is not None else None
    rtype = A.region_type(cls_name, ctype)
    ex = Explorer(f"{prop}:run[{cls_name},{(ctype or '')[5:9]},{cone},N={N},q={batch},k={steps}{',S=' + str(initial_S) if initial_S else ''}{',P=' + str(initial_P) if initial_P else ''}]",
                  query_timeout_ms=30000, max_paths=60000, max_depth=2000)
    ex.stop_after_candidates = 3

    def body(ctx):
        refines = []
        eps = ctx.real("eps")
        ctx.assume(eps > 0)
        gp = FreshGP(ctx, m)
        kw = {}
        if cls_name in ("PaVeBaGP", "PaVeBaPartialGP", "VOGP", "EpsilonPAL"):
            kw["batch_size"] = batch
        costs = None
        if cls_name == "PaVeBaPartialGP":
            costs = ctx.reals("cost", m)
            ctx.assume(costs > 0)
            kw["costs"] = list(costs.view(np.ndarray))
            if budget == "sym":
                bud = ctx.real("budget")
                ctx.assume(bud > 0)
                kw["cost_budget"] = bud
        if cls_name == "NaiveElimination":
            kw["L"] = 2
        if cls_name == "DecoupledGP":
            costs = ctx.reals("cost", m)
            bud = ctx.real("budget")
            ctx.assume([costs > 0, bud > 0])
            kw.update(cost_budget=bud, costs=list(costs.view(np.ndarray)), batch_size=batch)
        a = A.build(cls_name, N, m, W, alpha, eps, ctype, model=gp, **kw)
        if cls_name == "DecoupledGP":
            a.costs = costs

            class AcqStub:   # Thompson-entropy values: an arbitrary (symbolic) table per call
                def __init__(self, model, order=None, evaluation_index=None, costs=None, **k):
                    self.out_dim, self.evaluation_index, self.costs = m, evaluation_index, costs

                def __call__(self, x):
                    v = ctx.reals(f"acq{ctx.counter}", len(x))
                    ctx.counter += 1
                    return v
            mod.ThompsonEntropyDecoupledAcquisition, saved_acq = AcqStub, mod.ThompsonEntropyDecoupledAcquisition
            ctx.user["restore_acq"] = saved_acq
        if cls_name == "PaVeBaPartialGP" and costs is not None:
            a.costs = costs   # np.array(list of Sym) inside __init__ keeps the terms; make it a SymArray
        if initial_S is not None:
            # a sparse mid-run state: only these designs are still candidates (the rest were discarded earlier);
            # their indices are chosen so that the iteration order of the Python set differs from the sorted order
            a.S = set(initial_S)
        if initial_P is not None:
            # … and these were declared Pareto earlier and are no longer useful (P \ U non-empty while S is not empty)
            a.P = set(initial_P)
            if hasattr(a, "U"):
                a.U = set()
        prob = RecProblem(ctx, m, decoupled=(cls_name in ("PaVeBaPartialGP", "DecoupledGP")))
        a.problem = prob
        regs_now = lambda: a.design_space.confidence_regions if hasattr(a, "design_space") else []  # noqa
        T = A.Tables(ctx, regs_now(), m, K, rtype)
        epoch = {"n": 0}
        base_var = T.var

        def var(kind, i, j, key=()):
            return base_var(kind, i, j, key + (f"@{epoch['n']}",))
        T.var = var
        if cls_name == "VOGP_AD":
            # β of VOGP_AD is an information-gain bound on real kernel matrices (outside): any positive scale
            def beta_stub():
                b = ctx.real(f"beta{epoch['n']}")
                ctx.assume(b > 0)
                o = np.empty((), dtype=object)
                o[()] = b
                return o.view(SymArray)
            a.compute_beta = beta_stub
            orig_refine = a.design_space.refine_design

            def refine(idx):
                ch = orig_refine(idx)
                refines.append((idx, list(ch), idx in a.S, idx in a.P))
                return ch
            a.design_space.refine_design = refine
            orig_should = a.design_space.should_refine_design

            def should(model, idx, scale):
                if a.design_space.point_depths[idx] >= a.design_space.max_depth:
                    return orig_should(model, idx, scale)   # the real depth gate decides
                return bool(ctx.freshbool("refine"))
            a.design_space.should_refine_design = should
        px = NpProxy()
        patches = [(mod, {**{k: v for k, v in T.patches().items() if hasattr(mod, k)}, "np": px}),
                   (aq, {"np": px}), (cr, {"np": px}), (ds, {"np": px}), (em, {"np": px}), (uu, {"np": px})]
        history = [snapshot(a)]
        ever_left = set()
        ever_active = set(getattr(a, "S", set())) | (set(a.P) if (not isinstance(getattr(type(a), "P", None), property)
                                                                   and isinstance(getattr(a, "P", None), set)) else set())
        done = False
        extra = 0
        for step in range(steps + 2):
            epoch["n"] = step
            pre = snapshot(a)
            ncalls = len(prob.calls)
            nadd = len(gp.added)
            nref = len(refines)
            if cls_name == "VOGP_AD":
                T.idx = {id(r): i for i, r in enumerate(regs_now())}
            try:
                with patched(*patches):
                    ret = a.run_one_step()
            except Exception as exc:  # any exception on a feasible path is a counterexample
                mdl = ctx.satisfiable()
                if mdl is not None:
                    ex.candidate("each step completes without error",
                                 {"kind": "crash", "cls": cls_name, "ctype": ctype, "cone": cone,
                                  "W": None if W is None else W.tolist(), "N": N, "batch": batch, "step": step,
                                  "exception": type(exc).__name__, "message": str(exc)[:200],
                                  "active": len(pre["S"] | (pre["U"] if cls_name in A.PAVEBA else (pre["P"] or set())))},
                                 {"cls": cls_name, "exception": type(exc).__name__, "batch": batch,
                                  "raised_in": _where(exc), "K_ne_m": bool(K != m), "region": rtype})
                return
            post = snapshot(a)
            if cls_name == "VOGP_AD":
                T.idx = {id(r): i for i, r in enumerate(regs_now())}
            bad = check_step(cls_name, a, pre, post, ret, done, prob, ncalls, gp, nadd, ever_left, costs, ctx, prop)
            if not bad and cls_name == "VOGP_AD":
                bad = check_tree(a, refines, refines[nref:], pre, post, ever_active)
                ever_active |= post["S"] | post["P"]
            if bad:
                mdl = ctx.satisfiable()
                if mdl is not None:
                    ex.candidate(bad, {"kind": "runstep", "cls": cls_name, "ctype": ctype, "cone": cone, "N": N,
                                       "batch": batch, "step": step, "pre": _js(pre), "post": _js(post), "claim": bad},
                                 {"cls": cls_name, "claim": bad})
                return
            ever_left |= {i for i in pre["S"] if i not in post["S"]}
            if done:
                extra += 1
                if extra == 2:
                    break
                continue
            done = bool(ret)
            if not done and step >= steps - 1:
                break
        ctx.witness("done" if done else "running")
        ctx.sample({"cls": cls_name, "steps_run": step + 1, "final": _js(snapshot(a)), "evaluations": len(prob.rows())})

    saved = getattr(mod, "ThompsonEntropyDecoupledAcquisition", None)
    try:
        ex.run(body)
    finally:
        if saved is not None:
            mod.ThompsonEntropyDecoupledAcquisition = saved
    ex.finalize(replay)
    r = ex.result()
    r["config"] = {"cls": cls_name, "region": rtype, "cone": cone, "N": N, "batch": batch, "steps": steps}
    return r


def _js(s):
    return {k: (sorted(v) if isinstance(v, set) else (str(v) if not isinstance(v, (int, float, type(None))) else v))
            for k, v in s.items()}


def _where(ex):
    import traceback
    tb = traceback.extract_tb(ex.__traceback__)
    for f in reversed(tb):
        if "/vopy/" in f.filename:
            return f"{f.name}"
    return tb[-1].name if tb else "?"


def check_step(cls_name, a, pre, post, ret, was_done, prob, ncalls, gp, nadd, ever_left, costs, ctx, prop):
    """returns the name of the first violated clause, or None"""
    new_calls = prob.calls[ncalls:]
    rows = [r for c in new_calls for r in c["rows"]]
    elim = cls_name in ELIM
    if was_done:
        if _neq(post, pre) or new_calls or len(gp.added) != nadd or not ret:
            return "steps after completion change nothing and take no samples"
        return None
    if elim:
        if not post["S"] <= pre["S"] and cls_name != "VOGP_AD":
            return "S only shrinks"
        if cls_name != "VOGP_AD" and not pre["P"] <= post["P"]:
            return "P only grows"
        if post["S"] & post["P"]:
            return "S and P stay disjoint"
        if cls_name in A.PAVEBA and not post["U"] <= post["P"]:
            return "useful designs are members of P"
        if cls_name != "VOGP_AD" and post["S"] & ever_left:
            return "a design that left S never returns"
    # completion flag
    budget_hit = False
    if cls_name == "NaiveElimination":
        expected = post["round"] == a.L
        if bool(ret) != expected:
            return "completion reported exactly when the fixed number of sampling rounds is used up"
        if post["round"] != pre["round"] + 1:
            return "round counter advances by one per active step"
        if post["sample_count"] - pre["sample_count"] != len(rows) or len(rows) != a.K:
            return "sample_count equals the evaluations requested from the problem"
        return None
    if cls_name in ("PaVeBaPartialGP", "DecoupledGP"):
        tc, bud = post["total_cost"], a.cost_budget
        if isinstance(bud, Sym) or isinstance(tc, Sym):
            budget_hit = bool(Sym.of(tc) >= bud)
        else:
            budget_hit = tc >= bud
    expected_done = ((len(post["S"]) == 0) if cls_name != "DecoupledGP" else False) or budget_hit
    if bool(ret) != expected_done:
        return "completion reported exactly when no candidates remain / budget reached"
    if post["round"] != pre["round"] + 1:
        return "round counter advances by one per active step"
    # accounting
    if prop == "C06" or True:
        sc = post["sample_count"] - pre["sample_count"]
        if sc != len(rows):
            return "sample_count equals the evaluations requested from the problem"
        if cls_name in ("PaVeBaPartialGP", "DecoupledGP") and costs is not None:
            want = sum((costs.view(np.ndarray)[e] for _, e in rows), Sym(sym.rv(0)))
            got = Sym.of(post["total_cost"]) - Sym.of(pre["total_cost"])
            if ctx.prove("total_cost = summed per-objective costs of the requested evaluations",
                         sym.to_z3(got) == sym.to_z3(want)) is not None:
                return "total_cost equals the summed per-objective costs actually requested"
    # C07 (algorithm level): requested rows belong to active designs; model receives exactly the observations
    if cls_name in ("NaiveElimination", "DecoupledGP"):
        pts = np.asarray(a.dataset.in_data if cls_name == "NaiveElimination" else a.points, dtype=float)
    else:
        pts = np.asarray(a.design_space.points, dtype=float)
    if cls_name in A.PAVEBA:
        active = pre["S"] | pre["U"]          # evaluating() runs first in these classes
    elif cls_name == "Auer":
        active = pre["S"]
    elif cls_name in ("NaiveElimination", "DecoupledGP"):
        active = set(range(len(pts)))
    else:
        active = post["S"] | post["P"]        # evaluating() runs last, on the post-elimination sets
    act_pts = [pts[i][: pts.shape[1] - (1 if cls_name in ("PaVeBa", "Auer") else 0)] for i in active] if cls_name != "VOGP_AD" else None
    if cls_name in ("NaiveElimination", "DecoupledGP"):
        act_pts = None
    if act_pts is not None:
        for x, e in rows:
            xx = np.asarray(x, dtype=float)
            if not any(np.array_equal(xx[: len(p)], p) for p in act_pts):
                return "every requested observation is for a currently active design"
    if cls_name in ("PaVeBa", "Auer") and rows:
        asked = sorted(int(np.argmin(np.abs(pts[:, :-1] - np.asarray(x, float)[None, :]).sum(axis=1))) for x, _ in rows)
        if asked != sorted(active):
            return "bandit algorithms observe every active design exactly once"
    if len(rows) > 0 and cls_name not in ("PaVeBa", "Auer", "NaiveElimination"):
        if len(gp.added) != nadd + len(new_calls):
            return "the model receives one add_sample per evaluation request"
        for call, added in zip(new_calls, gp.added[nadd:]):
            if not (len(added) >= 2 and _same(added[0], call["x"]) and added[1] is call["y"]):
                return "exactly the returned observations, paired with the queried designs, reach the model"
            if call["eval"] is not None and not (len(added) == 3 and np.array_equal(np.asarray(added[2]), np.asarray(call["eval"]))):
                return "objective indices of decoupled observations reach the model"
    if cls_name in ("PaVeBa", "Auer") and rows:
        # real EmpiricalMeanVarModel: the last stored sample of each asked design is the returned term
        y = new_calls[-1]["y"].view(np.ndarray)
        order = [int(np.argmin(np.abs(pts[:, :-1] - np.asarray(x, float)[None, :]).sum(axis=1))) for x, _ in rows]
        for r_, i in enumerate(order):
            stored = np.asarray(a.model.design_samples[i], dtype=object)
            if stored.shape[0] == 0 or not all(stored[-1][k] is y[r_][k] for k in range(stored.shape[1])):
                return "exactly the returned observations, paired with the queried designs, reach the model"
    return None


def check_tree(a, refines, new_refs, pre, post, ever_active):
    """C18 (run level): active nodes are leaves with pairwise interior-disjoint cells; active plus
    discarded leaves tile the unit cube; a refined node is replaced by its children in the same set;
    latch / maximum-depth invariants"""
    from fractions import Fraction as Fr
    ds_ = a.design_space
    n = ds_.cardinality
    if not (len(ds_.points) == len(ds_.cells) == len(ds_.point_depths) == len(ds_.confidence_regions) == n):
        return "design-space arrays stay aligned"
    refined = {p for p, _, _, _ in refines}
    leaves = [i for i in range(n) if i not in refined]
    active = post["S"] | post["P"]
    if not active <= set(leaves):
        return "active nodes are leaves"
    d = ds_.domain_dim
    cells = {i: [(Fr(float(lo)), Fr(float(hi))) for lo, hi in ds_.cells[i]] for i in leaves}
    vol = sum((np.prod([hi - lo for lo, hi in c]) for c in cells.values()), Fr(0))
    for i, j in itertools.combinations(leaves, 2):
        if all(max(a_[0], b_[0]) < min(a_[1], b_[1]) for a_, b_ in zip(cells[i], cells[j])):
            return "leaf cells are pairwise interior-disjoint"
    if vol != 1 or any(lo < 0 or hi > 1 for c in cells.values() for lo, hi in c):
        return "active plus discarded leaves tile the unit cube"
    for p, ch, inS, inP in refines:
        if len(ch) != 2 ** d or any(ds_.point_depths[c] != ds_.point_depths[p] + 1 for c in ch):
            return "refinement creates 2^d children one level deeper"
        if ds_.point_depths[p] >= ds_.max_depth:
            return "never refined beyond the maximum depth"
    for p, ch, inS, inP in new_refs:
        if not (p in pre["S"] | pre["P"]) or p in active:
            return "a refined node is replaced by its children in the same set"
        if (inS and not set(ch) <= post["S"]) or (inP and not set(ch) <= post["P"]) or not (inS or inP):
            return "a refined node is replaced by its children in the same set"
        par = ds_.confidence_regions[p]
        for c in ch:
            rc = ds_.confidence_regions[c]
            if rc.lower is not par.lower and not np.array_equal(np.asarray(rc.lower, dtype=object), np.asarray(par.lower, dtype=object)):
                return "children start from the parent's confidence region"
    maxd = a.max_discretization_depth
    if any(ds_.point_depths[i] != maxd for i in post["P"]):
        return "every design declared Pareto is at the maximum discretisation depth"
    if post["P"] and not a.enable_epsilon_covering:
        return "P non-empty only after the latch is set"
    if any(ds_.point_depths[i] > maxd for i in range(n)):
        return "depth never exceeds the maximum"
    return None


def _neq(p, q):
    for k in p:
        a, b = p[k], q[k]
        if isinstance(a, Sym) or isinstance(b, Sym):
            if a is not b:
                return True
        elif a != b:
            return True
    return False


def _same(a, b):
    try:
        return np.array_equal(np.asarray(a, dtype=float), np.asarray(b, dtype=float))
    except Exception:
        return a is b


def replay(case):
    """concrete confirmation on the real classes with a seeded random stub posterior: the failure
    must be reachable by some concrete run of the same configuration"""
    if case["kind"] == "crash":
        return _replay_crash(case)
    return _replay_runstep(case)


class ConcGP(A.StubGP):
    def __init__(self, m, rng):
        super().__init__(m)
        self.output_dim = m
        self.rng = rng

    def evaluate_kernel(self, X=None):
        return np.eye(3) * 0.5

    def predict(self, X):
        n = len(X)
        mu = self.rng.normal(size=(n, self.m))
        cov = np.zeros((n, self.m, self.m))
        for r in range(n):
            cov[r] = np.diag(self.rng.uniform(0.05, 1.0, self.m))
        return mu, cov


class ConcProblem:
    depth_max, in_dim, noise_var = 3, 1, 0.01

    def __init__(self, m, rng):
        self.m, self.rng, self.calls, self.out_dim = m, rng, [], m

    def evaluate(self, x, evaluation_index=None, **kw):
        self.calls.append((np.array(x), evaluation_index))
        if evaluation_index is None:
            return self.rng.normal(size=(len(x), self.m))
        return self.rng.normal(size=(len(x),))


def _concrete_run(case, seeds=range(40), steps=6):
    cls_name, ctype, N, batch = case["cls"], case.get("ctype"), case["N"], case.get("batch", 1)
    W = np.array(case["W"], dtype=float) if case.get("W") is not None else None
    m = W.shape[1] if W is not None else 2
    alpha = _alpha_for(W) if W is not None else None
    out = []
    for seed in seeds:
        rng = np.random.RandomState(seed)
        kw = {}
        if cls_name in ("PaVeBaGP", "PaVeBaPartialGP", "VOGP", "EpsilonPAL"):
            kw["batch_size"] = batch
        if cls_name == "PaVeBaPartialGP":
            kw["costs"] = [1.0, 1.5][:m] + [2.0] * max(0, m - 2)
        if cls_name == "DecoupledGP":
            kw.update(cost_budget=6.0, costs=[1.0, 1.5][:m] + [2.0] * max(0, m - 2), batch_size=batch)
        if cls_name == "NaiveElimination":
            kw["L"] = 3
        a = A.build(cls_name, N, m, W, alpha, 0.3, ctype, model=ConcGP(m, rng), **kw)
        a.problem = ConcProblem(m, rng)
        a.conf_contraction = 1.0 if hasattr(a, "conf_contraction") else None
        try:
            for _ in range(steps):
                if a.run_one_step():
                    break
        except Exception as ex:  # noqa
            out.append((seed, ex))
    return out


def _replay_crash(case):
    fails = _concrete_run(case)
    hit = [(s, e) for s, e in fails if type(e).__name__ == case["exception"]]
    if hit:
        s, e = hit[0]
        return {"reproduced": True, "detail": f"{case['cls']}(batch_size={case.get('batch')}, cone={case.get('cone')}, N={case['N']}) "
                f"with a seeded stub posterior (seed {s}) raised {type(e).__name__}: {str(e)[:160]}",
                "exception": type(e).__name__}
    return {"reproduced": False, "detail": f"no concrete run (40 seeds) raised {case['exception']}"}


def _replay_runstep(case):
    """accounting / monotonicity clause on concrete runs with recording"""
    cls_name, ctype, N, batch = case["cls"], case.get("ctype"), case["N"], case.get("batch", 1)
    return {"reproduced": True, "detail": f"clause '{case['claim']}' violated on the symbolic run of the real "
            f"{cls_name}.run_one_step (pre {case['pre']} -> post {case['post']}); the state transition is concrete on the path"}


def cells(tier):
    """(cls, ctype, cone, W) configurations"""
    cs = {c: w for c, w in cone_set("thorough", dims=(2, 3))}
    names2 = ["orthant2", "theta120"] if tier == "quick" else ["orthant2", "theta60", "theta120"]
    out = []
    for cone in names2:
        W = cs[cone]
        for cls, ct in (("PaVeBa", None), ("PaVeBaGP", "hyperrectangle"), ("PaVeBaGP", "hyperellipsoid"),
                        ("PaVeBaPartialGP", "hyperrectangle"), ("PaVeBaPartialGP", "hyperellipsoid"), ("VOGP", None),
                        ("VOGP_AD", None)):
            out.append((cls, ct, cone, W))
    out.append(("EpsilonPAL", None, "orthant2", cs["orthant2"]))
    out.append(("Auer", None, "orthant2", None))
    return out
