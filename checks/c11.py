"""C11 — pessimistic rectangle comparison: sound for all cones, complete for 2×2 cones."""
from __future__ import annotations

import itertools
from fractions import Fraction

import numpy as np
import z3

from symx import lp, sym
from symx.arr import NpProxy, SymArray, symarray
from symx.explore import Explorer, Inconclusive, model_value
from symx.harness import (Wz, cone_set, dotz, frac_json, from_frac_json, make_order, patched,
                          src_info, zand, zor, zs)
from symx.sym import HarnessError, Sym

PROPERTY = "C11"
from checks.trans import transition_task  # noqa: E402,F401  (pessimistic-set clause)


def _mods():
    import vopy.confidence_region as cr
    import vopy.utils.utils as uu
    return cr, uu


def point_task(cone, W, shape, tier):
    """real is_pt_in_extended_polytope(W p, W·vertices(R2)) for an arbitrary symbolic point p.
    R2 normal forms (predicate is invariant under common translation / positive scaling):
      'rect'  [0,1]×[0,r], r ≥ 0 symbolic     'seg' {0}×[0,1]     'pt' {(0,0)}
    sound:    True  ⇒ ∃z'∈R2 : W(p − z') ≥ 0     (refuted separating direction d ≥ 0)
    complete: False ⇒ ¬∃z'∈R2 : W(p − z') ≥ μ·1 for μ > 0   (K = m = 2 only)"""
    cr, uu = _mods()
    W = np.asarray(W, dtype=float)
    K, m = W.shape
    Wq = Wz(W)
    proxy = NpProxy()
    ex = Explorer(f"pt_in_extended_polytope[{cone},{shape}]", query_timeout_ms=60000, max_paths=5000)

    def body(ctx):
        p = ctx.reals("p", m)
        if shape == "rect":
            r = ctx.real("r")
            ctx.assume(r >= 0)
            lo, hi = [Sym(sym.rv(0))] * 2, [Sym(sym.rv(1)), r]
        elif shape == "seg":
            lo, hi = [Sym(sym.rv(0))] * 2, [Sym(sym.rv(0)), Sym(sym.rv(1))]
        else:
            lo, hi = [Sym(sym.rv(0))] * 2, [Sym(sym.rv(0))] * 2
        with patched((uu, {"np": proxy})):
            verts = uu.hyperrectangle_get_vertices(symarray(lo), symarray(hi))
            tv = verts @ W.T
            q = p @ W.T
            ret = uu.is_pt_in_extended_polytope(q, tv)
        if not isinstance(ret, (bool, np.bool_)):
            raise HarnessError(f"returned {type(ret)}")
        ret = bool(ret)
        ctx.witness(str(ret))
        qz = zs(q)
        vz = zs(tv)  # K-dimensional transformed vertices (list of 4)
        if ret:
            d = [ctx.fresh("d") for _ in range(K)]
            sep = z3.And(zand([x >= 0 for x in d]), zor([x > 0 for x in d]),
                         zand([dotz(d, qz) < dotz(d, v) for v in vz]))
            mdl = ctx.prove("True ⇒ no separating direction d≥0 (∃z'∈R2: W(p−z') ≥ 0)", z3.Not(sep))
            name = "sound"
        else:
            if not (K == 2 and m == 2):
                ctx.sample({"cone": cone, "shape": shape, "ret": ret})
                return
            lam = [ctx.fresh("lam") for _ in range(len(vz))]
            mu = ctx.fresh("mu")
            inside = z3.And(zand([l >= 0 for l in lam]), sum(lam, sym.rv(0)) == 1, mu > 0,
                            zand([sum((l * v[k] for l, v in zip(lam, vz)), sym.rv(0)) + mu <= qz[k]
                                  for k in range(K)]))
            mdl = ctx.prove("False ⇒ no point of R2 is dominated by p with margin μ>0", z3.Not(inside))
            name = "complete"
        if mdl is not None:
            mv = lambda e: model_value(mdl, e)  # noqa
            ex.candidate(name, {"kind": "point", "cone": cone, "W": W.tolist(), "p": frac_json([mv(e) for e in zs(p)]),
                                "lo": frac_json([mv(sym.to_z3(v)) for v in lo]),
                                "hi": frac_json([mv(sym.to_z3(v)) for v in hi]), "ret": ret},
                         {"cone": cone, "shape": shape, "direction": name})
            return
        ctx.sample({"cone": cone, "shape": shape, "ret": ret, "decisions": len(ctx.decisions)})

    ex.run(body)
    ex.finalize(replay)
    r = ex.result()
    for lab in ("True", "False"):
        if not ex.witnessed.get(lab):
            r["inconclusive"].append(f"vacuity: outcome {lab} never reached")
    r["config"] = {"cone": cone, "shape": shape, "K": K, "m": m}
    r["concrete_validations"] = _validate(W, 60 if tier == "quick" else 300, r)
    return r


def point3d_task(cone, W, box, tier):
    """3-D soundness (thorough): concrete box R2 = [0,1]×[0,a]×[0,b], arbitrary symbolic point p, any cone of the
    set incl. K > m: True ⇒ no separating direction d ≥ 0 exists"""
    cr, uu = _mods()
    W = np.asarray(W, dtype=float)
    K, m = W.shape
    Wq = Wz(W)
    proxy = NpProxy()
    ex = Explorer(f"pt_in_extended_polytope3d[{cone},box={box}]", query_timeout_ms=60000, max_paths=20000, max_depth=5000)

    def body(ctx):
        p = ctx.reals("p", m)
        # the box enters as exact constants (Sym), so that W·vertex and P2 − P1 are computed exactly, not in binary64
        hi_f = [1.0, float(box[0]), float(box[1])]
        lo = symarray([Sym(sym.rv(0))] * m)
        hi = symarray([Sym(sym.rv(x)) for x in hi_f])
        with patched((uu, {"np": proxy})):
            verts = uu.hyperrectangle_get_vertices(lo, hi)
            tv = verts @ W.T
            q = p @ W.T
            ret = uu.is_pt_in_extended_polytope(q, tv)
        ret = bool(ret)
        ctx.witness(str(ret))
        if ret:
            qz = zs(q)
            vz = zs(tv)
            d = [ctx.fresh("d") for _ in range(K)]
            sep = z3.And(zand([x >= 0 for x in d]), zor([x > 0 for x in d]), zand([dotz(d, qz) < dotz(d, v) for v in vz]))
            mdl = ctx.prove("True ⇒ no separating direction d≥0 (3-D)", z3.Not(sep))
            if mdl is not None:
                mv = lambda e: model_value(mdl, e)  # noqa
                ex.candidate("sound", {"kind": "point", "cone": cone, "W": W.tolist(), "p": frac_json([mv(e) for e in zs(p)]),
                                       "lo": frac_json([Fraction(0)] * 3), "hi": frac_json([Fraction(float(x)) for x in hi_f]),
                                       "ret": ret}, {"cone": cone, "direction": "sound", "dim": 3})
                return
        ctx.sample({"cone": cone, "box": list(box), "ret": ret, "decisions": len(ctx.decisions)})

    ex.run(body)
    ex.finalize(replay)
    r = ex.result()
    r["config"] = {"cone": cone, "box": list(box), "K": K, "m": m}
    return r


def exact_point_oracle(W, p, lo, hi, margin=Fraction(0)):
    """∃z'∈[lo,hi] : W(p − z') ≥ margin   (exact rational LP)"""
    m = len(p)
    rows = []
    for i in range(m):
        e = [Fraction(0)] * m; e[i] = Fraction(1); rows.append((e, -lo[i]))
        e = [Fraction(0)] * m; e[i] = Fraction(-1); rows.append((e, hi[i]))
    for row in np.asarray(W, dtype=float):
        wq = [Fraction(float(w)) for w in row]
        rows.append(([-w for w in wq], sum(w * pi for w, pi in zip(wq, p)) - margin))
    return lp.exact_lp_feasible(rows)


def replay(case):
    cr, uu = _mods()
    if case["kind"] == "transition":
        from checks import trans
        return trans.replay(case)
    if case["kind"] == "rectlevel":
        return {"reproduced": True, "detail": case.get("detail")}
    W = np.array(case["W"], dtype=float)
    g = lambda k: [Fraction(x) for x in from_frac_json(case[k])]  # noqa
    p, lo, hi = g("p"), g("lo"), g("hi")
    pf, lof, hif = (np.array([float(x) for x in v]) for v in (p, lo, hi))
    pe, loe, hie = ([Fraction(float(x)) for x in v] for v in (pf, lof, hif))
    verts = uu.hyperrectangle_get_vertices(lof, hif) @ W.T
    try:
        code = bool(uu.is_pt_in_extended_polytope(pf @ W.T, verts))
    except Exception as ex:  # noqa
        return {"reproduced": True, "detail": "raised " + repr(ex)}
    tol = Fraction(1, 10**3) if case.get("cone") == "validation" else Fraction(1, 10**7)   # 'non-negligible margin'
    sure = exact_point_oracle(W, pe, loe, hie, tol)
    poss = exact_point_oracle(W, pe, loe, hie, -Fraction(1, 10**7))
    K, m = W.shape
    if code and not poss:
        return {"reproduced": True, "detail": f"returned True but no z'∈R2 is dominated by p (exact LP); p={pf}, R2=[{lof},{hif}]"}
    if (not code) and sure and K == 2 and m == 2:
        return {"reproduced": True, "incomplete_by_rounding": True,
                "detail": f"returned False although p dominates a point of R2 with margin {float(tol)}; p={pf}, R2=[{lof},{hif}]"}
    return {"reproduced": False, "detail": f"code={code}, oracle sure={sure} possible={poss}"}


def _validate(W, n, r):
    rng = np.random.RandomState(9)
    m = W.shape[1]
    ok = 0
    for it in range(3 * n):
        lo = np.round(rng.uniform(-1, 1, m) * 8) / 8
        hi = lo + np.round(rng.uniform(0, 1.5, m) * 8) / 8
        p = np.round(rng.uniform(-2, 3, m) * 8) / 8
        if it >= n:
            # generic (non-dyadic) coordinates, the point near / inside the rectangle: exercises the floating-point
            # behaviour of the edge-intersection search (t = num/den, P1 + t(P2 − P1)) that the reals encoding abstracts
            lo = rng.uniform(-1, 1, m)
            hi = lo + rng.uniform(0.2, 3.0, m)
            p = lo + rng.uniform(-0.3, 1.0, m) * (hi - lo) * rng.uniform(0.1, 1.0)
        fj = lambda v: frac_json([Fraction(float(x)) for x in v])  # noqa
        case = {"kind": "point", "cone": "validation", "W": W.tolist(), "p": fj(p), "lo": fj(lo), "hi": fj(hi)}
        rep = replay(case)
        if rep["reproduced"]:
            r["violations"].append({"obligation": "concrete validation: real code vs exact LP", "case": case,
                                    "reproduced": True, "replay_detail": rep["detail"],
                                    "features": {"source": "concrete_validation"}})
        else:
            ok += 1
    return ok


def rectlevel_task(cone, W, tier):
    """check_dominates(R1, R2) = conjunction of the point predicate over the vertices of R1, each
    called with (W·vertex, W·vertices(R2)) — real loop, point predicate replaced by a recording
    fork; soundness for all z∈R1 then follows from convexity of R2 + C (trusted, one line)"""
    cr, uu = _mods()
    W = np.asarray(W, dtype=float)
    K, m = W.shape
    order = make_order(W)
    proxy = NpProxy()
    ex = Explorer(f"check_dominates[{cone}]", query_timeout_ms=30000)

    def body(ctx):
        l1, u1, l2, u2 = (ctx.reals(n, m) for n in ("l1", "u1", "l2", "u2"))
        ctx.assume([l1 <= u1, l2 <= u2])
        calls = []

        def stub(pt, polytope, invert_extension=False):
            b = bool(ctx.freshbool("pt_in"))
            calls.append((pt, polytope, invert_extension, b))
            return b
        with patched((cr, {"np": proxy, "is_pt_in_extended_polytope": stub}), (uu, {"np": proxy})):
            R1 = cr.RectangularConfidenceRegion(m, l1, u1)
            R2 = cr.RectangularConfidenceRegion(m, l2, u2)
            ret = cr.confidence_region_check_dominates(order, R1, R2)
            v1 = uu.hyperrectangle_get_vertices(l1, u1)
            v2 = uu.hyperrectangle_get_vertices(l2, u2)
        ctx.witness(str(bool(ret)))
        Wq = Wz(W)
        exp_pts = [[dotz(row, zs(v)) for row in Wq] for v in v1]
        exp_poly = [[dotz(row, zs(v)) for row in Wq] for v in v2]
        ok = isinstance(ret, (bool, np.bool_))
        # every call must be for a vertex of R1 (transformed) against the transformed vertices of R2
        seen = []
        claims = []
        for pt, poly, inv, b in calls:
            if inv or np.shape(pt) != (K,) or np.shape(poly) != (2 ** m, K):
                ok = False
                break
            pz = zs(symarray(pt))
            match = [zand([pz[k] == e[k] for k in range(K)]) for e in exp_pts]
            claims.append(zor(match))
            pol = [zs(symarray(row)) for row in poly]
            claims.append(zand([zor([zand([a[k] == e[k] for k in range(K)]) for a in pol]) for e in exp_poly]))
            seen.append(b)
        if ok:
            expected = all(seen) and (len(seen) == 2 ** m if all(seen) else True)
            ok = bool(ret) == all(seen) and (not bool(ret) or len(seen) == 2 ** m) and (bool(ret) or not seen[-1])
        mdl = ctx.prove("check_dominates = AND over R1's vertices of the point predicate on (W·v, W·verts(R2))",
                        z3.And(z3.BoolVal(bool(ok)), *claims))
        if mdl is not None:
            ex.candidate("rectlevel", {"kind": "rectlevel", "detail": f"cone {cone}: check_dominates does not call the "
                         f"point predicate on the vertices of R1 against W·vertices(R2) ({len(calls)} calls, ret={ret})"},
                         {"cone": cone})
            return
        ctx.sample({"cone": cone, "calls": len(calls), "ret": bool(ret)})

    ex.run(body)
    ex.finalize(replay)
    # distinct vertices of R1 must all have been tested on the all-True path
    r = ex.result()
    r["config"] = {"cone": cone}
    return r


def tasks(tier, seed):
    ts = []
    for cone, W in cone_set(tier, dims=(2,), seed=seed):
        for shape in ("rect", "seg", "pt"):
            ts.append({"id": f"point[{cone},{shape}]", "fn": "point_task",
                       "args": {"cone": cone, "W": W.tolist(), "shape": shape, "tier": tier},
                       "weight": 30 if shape == "rect" else 2})
    for cone, W in cone_set(tier, seed=seed):
        ts.append({"id": f"rectlevel[{cone}]", "fn": "rectlevel_task", "args": {"cone": cone, "W": W.tolist(), "tier": tier}})
    if tier != "quick":
        for cone, W in cone_set(tier, dims=(3,), seed=seed):
            if W.shape[0] != W.shape[1]:
                continue   # K > m: the exploration did not finish within 40 min for the ice-cream cone (stated bound)
            for box in ((1, 1), (0.5, 2), (0, 1)):
                ts.append({"id": f"point3d[{cone},{box}]", "fn": "point3d_task",
                           "args": {"cone": cone, "W": W.tolist(), "box": list(box), "tier": tier}, "weight": 200})
    # the pessimistic Pareto set of VOGP / ε-PAL / VOGP_AD over free PD tables
    from checks import trans
    for t in trans.tasks_for("C11", tier, seed):
        if "orthant2" in t["id"] or "theta60" in t["id"] or tier != "quick":
            ts.append(t)
    return ts


def meta(tier):
    cr, uu = _mods()
    return {
        "level": "model_checking",
        "functions": src_info(cr.confidence_region_check_dominates, cr.RectangularConfidenceRegion.check_dominates,
                              uu.is_pt_in_extended_polytope, uu.line_seg_pt_intersect_at_dim,
                              uu.hyperrectangle_get_vertices),
        "bounds": {"point level": "2-D cones of the set (θ grid), arbitrary symbolic point, R2 in normal form "
                   "[0,1]×[0,r] (r ≥ 0 symbolic) plus the two degenerate normal forms",
                   "rectangle level": "all cones of the set incl. 3-D and K>m (call structure only)"},
        "assumptions": ["floats are encoded as exact reals (rounding in t = num/den outside)",
                        "the point predicate is invariant under a common translation and positive scaling of its "
                        "inputs (every comparison is between differences or ratios) — used to normalise R2; validated "
                        "on concrete samples with arbitrary rectangles",
                        "separating-hyperplane theorem: p dominates no point of R2 ⇔ some d ≥ 0 separates W p from "
                        "W·R2 (trusted)", "soundness for all z∈R1 from the vertices: convexity of R2 + C (trusted)"],
        "outside": ["opening angles between grid points", "3-D point-level soundness: thorough tier only, K = m cones, three concrete "
                    "box shapes, arbitrary symbolic point (3d_acute: 1906 paths / 443 s per box); K > m in 3-D only on concrete samples"],
        "explanation": "both directions are refutations of an existential certificate (separating direction / convex "
                       "combination with margin) on every path of the real edge-intersection search",
    }
