"""C03 — a design enters P exactly when no active region can still ε-cover it; U; Auer hold-back."""
from symx.harness import src_info
from checks import algo as A
from checks import trans
from checks.trans import transition_task, replay  # noqa: F401 (task entry points)
from checks.auer import auer_task  # noqa: F401

PROPERTY = "C03"


def tasks(tier, seed):
    ts = trans.tasks_for("C03", tier, seed)
    for widths in ("homogeneous", "per_design", "per_objective"):
        ts.append({"id": f"Auer[{widths}]", "fn": "auer_task",
                   "args": {"N": 3, "m": 2, "widths": widths, "prop": "C03", "tier": tier}, "weight": 50})
    return ts


def meta(tier):
    fs = []
    for c in ("PaVeBa", "PaVeBaGP", "PaVeBaPartialGP", "VOGP", "VOGP_AD", "EpsilonPAL", "Auer"):
        cls = getattr(A.amod(c), c)
        fs += [getattr(cls, n) for n in ("pareto_updating", "useful_updating", "epsiloncovering", "big_m") if hasattr(cls, n)]
    return {"level": "model_checking", "functions": src_info(*fs),
            "bounds": {"N": "3 designs (4 in the thorough tier for the PaVeBa family on orthant2, theta60, theta120)", "m": "2 (3 thorough)", "pre-states": "every assignment of "
                       "the designs to S/U/P/gone with S non-empty; regions arbitrary (symbolic)",
                       "rounds": "one round from an arbitrary state (covers every history for that N)"},
            "stubs": ["region predicates replaced by table look-ups DOM/COV/PD keyed by (design, design, slack) — the "
                      "equality of the real predicate code with their geometric specification is C09/C10/C11",
                      "dataset / model factories stubbed; real __init__ wires ε, α, u*, order, design space"],
            "assumptions": ["verdict conditional on C09, C10, C11", "Auer: 'summed widths in every objective' = the scalar "
                            "m(i,j) compared with (β_i+β_j)_k for every k"],
            "explanation": "stage 1: the real phase code forks only on table entries; the post-state is proved equal to "
                           "the reference transition over the same tables for every table valuation. stage 2 (after a "
                           "refutation): regions realising a refuting table by exact definitions (closed form, Farkas), "
                           "replayed on the real code with real cvxpy"}
