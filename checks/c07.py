"""C07 — samples go to the acquisition maximiser among active designs and reach the model."""
from __future__ import annotations

import itertools
from fractions import Fraction

import numpy as np
import z3

from symx import sym
from symx.arr import NpProxy, SymArray, symarray
from symx.explore import Explorer, model_value
from symx.harness import frac_json, from_frac_json, patched, src_info, zand, zor, zs
from symx.sym import HarnessError, Sym

from checks import algo as A
from checks import runs
from checks.runs import run_task  # noqa: F401 (task entry point)

PROPERTY = "C07"


def _aq():
    import vopy.acquisition.acquisition as aq
    return aq


class TableAcq:
    """acquisition stub with a symbolic value table; rows identified by a concrete id column"""

    def __init__(self, table, out_dim=None):
        self.table = table          # SymArray (n,) or (out_dim, n)
        self.out_dim = out_dim
        self.evaluation_index = 7 if out_dim else None   # sentinel: must be restored
        self.calls = 0

    def __call__(self, x):
        self.calls += 1
        ids = [int(r[0]) for r in np.asarray(x, dtype=float)]
        t = self.table if self.out_dim is None else self.table[self.evaluation_index]
        return symarray([t.view(np.ndarray)[i] for i in ids])


def optimise_task(n, q, out_dim, tier):
    """real optimize_acqf_discrete / optimize_decoupled_acqf_discrete on an arbitrary symbolic value
    table (ties are just equalities the solver may choose); rows carry a concrete id and equal
    design coordinates in two rows (distinct rows by identity, not by value)"""
    aq = _aq()
    ex = Explorer(f"optimise[n={n},q={q},out_dim={out_dim}]", query_timeout_ms=30000, max_paths=200000)
    px = NpProxy()

    def body(ctx):
        choices = np.array([[float(i), 0.5 if i < 2 else float(i)] for i in range(n)])  # rows 0,1 share a coordinate
        if out_dim is None:
            tab = ctx.reals("a", n)
            acq = TableAcq(tab)
            with patched((aq, {"np": px})):
                cand, vals = aq.optimize_acqf_discrete(acq, q, choices.copy())
            ids = [int(r[0]) for r in np.asarray(cand, dtype=float)]
            ctx.witness("picks=" + ",".join(map(str, ids)))
            tz = zs(tab)
            qq = min(q, n)
            claims = {"q (≤ n) distinct rows": z3.BoolVal(len(ids) == qq and len(set(ids)) == qq and np.shape(cand) == (qq, 2))}
            rem = list(range(n))
            per = []
            for k, i in enumerate(ids):
                per.append(zand([tz[i] >= tz[j] for j in rem]))
                per.append(sym.to_z3(np.asarray(vals, dtype=object)[k]) == tz[i])
                rem = [j for j in rem if j != i]
            claims["each pick attains the maximum over the not-yet-picked rows; values reported"] = zand(per)
            claims["non-increasing acquisition order"] = zand([tz[ids[k]] >= tz[ids[k + 1]] for k in range(len(ids) - 1)])
        else:
            tab = ctx.reals("a", out_dim, n)
            acq = TableAcq(tab, out_dim)
            with patched((aq, {"np": px})):
                cand, vals, evi = aq.optimize_decoupled_acqf_discrete(acq, q, choices.copy())
            ids = [int(r[0]) for r in np.asarray(cand, dtype=float)]
            evi = [int(e) for e in np.asarray(evi)]
            ctx.witness("picks=" + ",".join(f"{i}:{e}" for i, e in zip(ids, evi)))
            tz = zs(tab)
            qq = min(q, n)
            pairs = list(zip(evi, ids))
            allpairs = [(e, i) for e in range(out_dim) for i in range(n)]
            claims = {"q distinct (design, objective) pairs": z3.BoolVal(len(pairs) == qq and len(set(pairs)) == qq
                                                                           and all(0 <= e < out_dim for e in evi)),
                      "evaluation_index restored": z3.BoolVal(acq.evaluation_index == 7)}
            claims["returned pairs are a top-q set of the out_dim × n table"] = zand(
                [tz[e][i] >= tz[e2][i2] for (e, i) in pairs for (e2, i2) in allpairs if (e2, i2) not in pairs])
            claims["non-increasing order; values paired with their rows"] = zand(
                [tz[pairs[k][0]][pairs[k][1]] >= tz[pairs[k + 1][0]][pairs[k + 1][1]] for k in range(len(pairs) - 1)] +
                [sym.to_z3(np.asarray(vals, dtype=object)[k]) == tz[pairs[k][0]][pairs[k][1]] for k in range(len(pairs))])
        for name, cl in claims.items():
            mdl = ctx.prove(name, cl)
            if mdl is not None:
                tv = [[model_value(mdl, e) for e in row] for row in (tz if out_dim else [tz])]
                ex.candidate(name, {"kind": "table", "n": n, "q": q, "out_dim": out_dim, "table": frac_json(tv)},
                             {"claim": name, "decoupled": out_dim is not None})
                return
        ctx.sample({"n": n, "q": q, "out_dim": out_dim, "picks": ids})

    ex.run(body)
    ex.finalize(replay)
    r = ex.result()
    r["config"] = {"n": n, "q": q, "out_dim": out_dim}
    return r


class ConcAcq:
    def __init__(self, table, out_dim=None):
        self.table, self.out_dim = np.asarray(table, dtype=float), out_dim
        self.evaluation_index = 7 if out_dim else None

    def __call__(self, x):
        ids = [int(r[0]) for r in x]
        t = self.table[0] if self.out_dim is None else self.table[self.evaluation_index]
        return t[ids]


def replay(case):
    aq = _aq()
    if case["kind"] in ("crash", "runstep"):
        return runs.replay(case)
    if case["kind"] == "rule":
        return {"reproduced": True, "detail": case.get("detail")}
    n, q, out_dim = case["n"], case["q"], case["out_dim"]
    tab = np.array([[float(Fraction(v)) for v in row] for row in from_frac_json(case["table"])])
    choices = np.array([[float(i), 0.5 if i < 2 else float(i)] for i in range(n)])
    qq = min(q, n)
    try:
        if out_dim is None:
            cand, vals = aq.optimize_acqf_discrete(ConcAcq(tab), q, choices.copy())
            ids = [int(r[0]) for r in cand]
            rem = list(range(n))
            bad = len(ids) != qq or len(set(ids)) != qq
            for k, i in enumerate(ids):
                if not bad and (tab[0][i] < max(tab[0][j] for j in rem) or vals[k] != tab[0][i]):
                    bad = True
                rem = [j for j in rem if j != i]
            return {"reproduced": bool(bad), "detail": f"table {tab[0].tolist()} -> picks {ids}, values {np.asarray(vals).tolist()}"}
        acq = ConcAcq(tab, out_dim)
        cand, vals, evi = aq.optimize_decoupled_acqf_discrete(acq, q, choices.copy())
        pairs = [(int(e), int(r[0])) for e, r in zip(evi, cand)]
        others = [tab[e][i] for e in range(out_dim) for i in range(n) if (e, i) not in pairs]
        got = [tab[e][i] for e, i in pairs]
        bad = len(set(pairs)) != qq or (others and min(got) < max(others)) or any(got[k] < got[k + 1] for k in range(len(got) - 1)) \
            or acq.evaluation_index != 7 or list(np.asarray(vals)) != got
        return {"reproduced": bool(bad), "detail": f"table {tab.tolist()} -> pairs {pairs}, values {np.asarray(vals).tolist()}"}
    except Exception as ex:  # noqa
        return {"reproduced": True, "detail": "optimiser raised " + repr(ex)}


def rule_task(tier):
    """acquisition rules: MaxDiagonal returns ‖upper−lower‖ of *that row's* design; SumVariance the
    trace; MaxVarianceDecoupled the cost-weighted diagonal entry of the requested objective"""
    aq = _aq()
    import vopy.confidence_region as cr
    import vopy.design_space as ds
    import vopy.utils.utils as uu
    ex = Explorer("acquisition_rules", query_timeout_ms=30000)
    px = NpProxy()

    def body(ctx):
        N, m = 3, 2
        pts = np.array([[0.0], [0.5], [1.0]])
        d = ds.FixedPointsDesignSpace(pts, m, "hyperrectangle")
        regs = []
        for i in range(N):
            lo, up = ctx.reals(f"lo{i}", m), ctx.reals(f"up{i}", m)
            ctx.assume(lo <= up)
            r = cr.RectangularConfidenceRegion.__new__(cr.RectangularConfidenceRegion)
            r.lower, r.upper, r.intersect_iteratively = lo, up, False
            regs.append(r)
        d.confidence_regions = regs
        order = [2, 0, 1, 0]
        with patched((aq, {"np": px}), (cr, {"np": px}), (ds, {"np": px})):
            v = aq.MaxDiagonalAcquisition(d).forward(pts[order])
        claims = {}
        vz = [sym.to_z3(x) for x in np.asarray(v, dtype=object)]
        claims["MaxDiagonal: value of row r = diagonal of row r's design"] = zand(
            [z3.And(vz[k] >= 0, vz[k] * vz[k] == sum(((zs(regs[i].upper)[j] - zs(regs[i].lower)[j]) *
                                                      (zs(regs[i].upper)[j] - zs(regs[i].lower)[j]) for j in range(m)), sym.rv(0)))
             for k, i in enumerate(order)])
        gp = runs.FreshGP(ctx, m)
        with patched((aq, {"np": px})):
            sv = aq.SumVarianceAcquisition(gp).forward(pts[order])
        var = gp.returned[-1]["var"]
        claims["SumVariance: trace of the predicted covariance of each requested row"] = zand(
            [sym.to_z3(np.asarray(sv, dtype=object)[k]) == sum(zs(var)[k], sym.rv(0)) for k in range(len(order))])
        costs = ctx.reals("cost", m)
        ctx.assume(costs > 0)
        per = []
        for e in range(m):
            for cs in (None, costs):
                a = aq.MaxVarianceDecoupledAcquisition(gp, evaluation_index=e, costs=cs)
                with patched((aq, {"np": px})):
                    mv = a.forward(pts[order])
                var = gp.returned[-1]["var"]
                for k in range(len(order)):
                    want = zs(var)[k][e]
                    got = sym.to_z3(np.asarray(mv, dtype=object)[k])
                    per.append(got == want if cs is None else got * zs(costs)[e] == want)
        claims["MaxVarianceDecoupled: (cost-weighted) variance of the requested objective"] = zand(per)
        ctx.witness("any")
        for name, cl in claims.items():
            if ctx.prove(name, cl) is not None:
                ex.candidate(name, {"kind": "rule", "detail": f"acquisition rule '{name}' refuted on symbolic regions/posteriors"},
                             {"claim": name})
                return
        ctx.sample({"rules": list(claims)})

    ex.run(body)
    ex.finalize(replay)
    r = ex.result()
    r["config"] = {"N": 3, "m": 2}
    return r


def tasks(tier, seed):
    ts = []
    # (n choices, batch q, out_dim); q > n — a batch larger than the remaining choices — for both optimisers
    shapes = [(3, 1, None), (3, 2, None), (4, 2, None), (3, 4, None), (2, 1, 2), (2, 2, 2), (3, 2, 2), (2, 3, 2), (1, 2, 2)] \
        if tier == "quick" else \
        [(3, 1, None), (3, 2, None), (4, 2, None), (4, 3, None), (3, 4, None), (2, 1, 2), (2, 2, 2), (3, 2, 2), (3, 3, 2), (2, 2, 3),
         (2, 3, 2), (1, 2, 2), (2, 4, 2), (2, 3, 3)]
    for n, q, od in shapes:
        ts.append({"id": f"optimise[n={n},q={q},out_dim={od}]", "fn": "optimise_task",
                   "args": {"n": n, "q": q, "out_dim": od, "tier": tier}, "weight": n * q * (od or 1)})
    ts.append({"id": "acquisition_rules", "fn": "rule_task", "args": {"tier": tier}})
    cs = {c: w for c, w in __import__("symx.harness", fromlist=["cone_set"]).cone_set("thorough", dims=(2,))}
    for cls, ct in (("PaVeBa", None), ("PaVeBaGP", "hyperrectangle"), ("PaVeBaPartialGP", "hyperrectangle"), ("VOGP", None),
                    ("EpsilonPAL", None), ("Auer", None), ("NaiveElimination", None), ("DecoupledGP", None), ("VOGP_AD", None)):
        W = None if cls == "Auer" else cs["orthant2"].tolist()
        N, steps = (1, 3) if cls == "VOGP_AD" else (2, 2)
        ts.append({"id": f"run[{cls}]", "fn": "run_task",
                   "args": {"cls_name": cls, "ctype": ct, "cone": "orthant2", "W": W, "N": N, "steps": steps, "batch": 1,
                            "prop": "C07", "tier": tier}, "weight": 100})
    # three designs, one round: a design can be discarded while another stays undecided, so the sampling phase of the same
    # round runs on a changed active set (with two designs a discard ends the run)
    for cls, ct in (("VOGP", None), ("EpsilonPAL", None), ("PaVeBaGP", "hyperrectangle"), ("PaVeBa", None), ("Auer", None)):
        W = None if cls == "Auer" else cs["orthant2"].tolist()
        ts.append({"id": f"run[{cls},N=3]", "fn": "run_task",
                   "args": {"cls_name": cls, "ctype": ct, "cone": "orthant2", "W": W, "N": 3, "steps": 2 if (cls == "PaVeBa" or (cls == "PaVeBaGP" and tier != "quick")) else 1,
                            "batch": 1, "prop": "C07", "tier": tier}, "weight": 100})
    # mid-run state with a decided design that is no longer useful (P \ U ≠ ∅, S ≠ ∅): the PaVeBa family must not sample it
    for cls, ct in (("PaVeBaGP", "hyperrectangle"), ("PaVeBa", None), ("PaVeBaPartialGP", "hyperrectangle")):
        ts.append({"id": f"run[{cls},S={{1,2}},P={{0}}]", "fn": "run_task",
                   "args": {"cls_name": cls, "ctype": ct, "cone": "orthant2", "W": cs["orthant2"].tolist(), "N": 3, "steps": 1,
                            "batch": 1, "prop": "C07", "tier": tier, "initial_S": [1, 2], "initial_P": [0]}, "weight": 100})
    # sparse mid-run active sets whose set-iteration order differs from the sorted order ({8, 1} iterates as 8, 1):
    # the pairing of queried designs and returned observations must not depend on that order
    for cls, ct in (("PaVeBa", None), ("Auer", None), ("VOGP", None), ("PaVeBaGP", "hyperrectangle")):
        W = None if cls == "Auer" else cs["orthant2"].tolist()
        ts.append({"id": f"run[{cls},sparse S={{8,1}}]", "fn": "run_task",
                   "args": {"cls_name": cls, "ctype": ct, "cone": "orthant2", "W": W, "N": 9, "steps": 1, "batch": 1,
                            "prop": "C07", "tier": tier, "initial_S": [8, 1]}, "weight": 100})
    return ts


def meta(tier):
    aq = _aq()
    return {"level": "model_checking",
            "functions": src_info(aq.optimize_acqf_discrete, aq.optimize_decoupled_acqf_discrete,
                                  aq.MaxDiagonalAcquisition.forward, aq.SumVarianceAcquisition.forward,
                                  aq.MaxVarianceDecoupledAcquisition.forward) +
            src_info(*[getattr(getattr(A.amod(c), c), "evaluating") for c in
                       ("PaVeBa", "PaVeBaGP", "PaVeBaPartialGP", "VOGP", "EpsilonPAL", "Auer", "DecoupledGP")]),
            "bounds": {"tables": "n ≤ 4 choices, q ≤ 4 (incl. q > n), out_dim ≤ 2 (3 thorough), ties allowed",
                       "runs": "N = 2 designs, 2 steps (VOGP_AD: 3 steps from the root), batch 1; N = 3 designs, one round (PaVeBa: two) so that "
                               "the active set changes between elimination and sampling; sparse state S = {8, 1}"},
            "stubs": ["acquisition value tables symbolic", "stub posterior with a fresh symbolic prediction per call",
                      "recording problem returning fresh symbolic observations", "free-oracle region predicates",
                      "Thompson-entropy acquisition values: arbitrary symbolic table (its sampling is outside)"],
            "assumptions": ["floats are encoded as exact reals"],
            "explanation": "the optimisers are executed on arbitrary symbolic tables (every comparison order is a path); "
                           "the algorithms' evaluating() on recording stubs: requested rows are active designs, and exactly "
                           "the returned observation terms reach the model (term identity)"}
