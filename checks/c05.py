"""C05 — VOGP / ε-PAL keep ε-isolated optima; P is internally non-ε-dominated."""
from __future__ import annotations

from symx.harness import cone_set, src_info
from checks import algo as A
from checks.induct import induct_task, replay  # noqa: F401 (task entry points)

PROPERTY = "C05"


def tasks(tier, seed):
    ts = []
    names = ["orthant2", "theta60", "theta120"] if tier == "quick" else None
    for cone, W in cone_set(tier, seed=seed):
        if names and cone not in names:
            continue
        K, m = W.shape
        if K != m:
            continue   # hyper-rectangle slack lives in objective space
        N = 3
        ts.append({"id": f"step:VOGP[{cone},N={N}]", "fn": "induct_task",
                   "args": {"cls_name": "VOGP", "ctype": None, "cone": cone, "W": W.tolist(), "N": N, "prop": "C05", "tier": tier},
                   "weight": 100})
        ts.append({"id": f"hist:VOGP[{cone},N=2,rounds=2]", "fn": "induct_task",
                   "args": {"cls_name": "VOGP", "ctype": None, "cone": cone, "W": W.tolist(), "N": 2, "prop": "C05",
                            "tier": tier, "base_only": True, "rounds": 2}, "weight": 50})
        if cone.startswith("orthant"):
            ts.append({"id": f"step:EpsilonPAL[{cone},N={N}]", "fn": "induct_task",
                       "args": {"cls_name": "EpsilonPAL", "ctype": None, "cone": cone, "W": W.tolist(), "N": N, "prop": "C05",
                                "tier": tier}, "weight": 100})
            ts.append({"id": f"hist:EpsilonPAL[{cone},N=2,rounds=2]", "fn": "induct_task",
                       "args": {"cls_name": "EpsilonPAL", "ctype": None, "cone": cone, "W": W.tolist(), "N": 2, "prop": "C05",
                                "tier": tier, "base_only": True, "rounds": 2}, "weight": 50})
    return ts


def meta(tier):
    fs = []
    for c in ("VOGP", "EpsilonPAL"):
        cls = getattr(A.amod(c), c)
        fs += [cls.__init__, cls.discarding, cls.epsiloncovering, cls.compute_pessimistic_set]
    return {"level": "model_checking", "functions": src_info(*fs),
            "bounds": {"N": "3 designs; rounds unbounded for that N (induction)", "m": "2 (3 thorough)",
                       "cones": "K = m cones of the set (VOGP); orthant (ε-PAL)"},
            "stubs": ["region predicates as tables with their specification instantiated at the truths; the pessimistic "
                      "comparison is a free boolean (safety does not depend on it)", "u* from the real compute_u_star (C17)"],
            "assumptions": ["conditional on C09/C10/C17", "truth of every design in S ∪ P lies in its displayed rectangle",
                            "relative tolerance 1e-6 on the ε-slack"],
            "explanation": "inductive step of the real discarding/epsiloncovering code from every invariant-satisfying state: "
                           "K1 (ε-isolated optima stay in S∪P), K2 (P internally non-ε-dominated), K3 (no candidate "
                           "ε-dominates a member of P)"}
