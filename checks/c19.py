"""C19 — gaps, ε-coverage and ε-F1 agree with their geometric definitions."""
from __future__ import annotations

import itertools
from fractions import Fraction

import numpy as np
import z3

from symx import cpshim, sym
from symx.arr import NpProxy, SymArray, symarray
from symx.explore import Explorer, Inconclusive, model_value
from symx.harness import (Wz, cone_set, dotz, frac_json, from_frac_json, make_order, patched,
                          src_info, zand, zor, zs)
from symx.sym import HarnessError, Special, Sym

PROPERTY = "C19"
TAU = Fraction(1, 10**7)  # relative tolerance on the numerically computed alpha
RT = sym.rv(Fraction(1, 10**6))


def _mods():
    import vopy.utils.evaluate as ev
    import vopy.utils.utils as uu
    return uu, ev


def exact_alpha(W):
    """independent oracle for α_n = max{w_n·x : Wx ≥ 0, ‖x‖ ≤ 1}: KKT candidates = normalised
    projections of w_n onto the faces {x : W_S x = 0} of the cone (numpy linear algebra)"""
    W = np.asarray(W, dtype=float)
    K, m = W.shape
    out = []
    for n in range(K):
        best = 0.0
        for r in range(0, m):
            for S in itertools.combinations(range(K), r):
                if S:
                    A = W[list(S)]
                    # projector onto null space of A
                    _, sv, Vt = np.linalg.svd(A)
                    rank = int((sv > 1e-12).sum())
                    N = Vt[rank:].T
                    if N.shape[1] == 0:
                        continue
                    p = N @ (N.T @ W[n])
                else:
                    p = W[n].copy()
                nr = np.linalg.norm(p)
                if nr < 1e-12:
                    continue
                x = p / nr
                if np.all(W @ x >= -1e-10):
                    best = max(best, float(W[n] @ x))
        out.append(best)
    return np.array(out)


def _alpha_for(W):
    uu, ev = _mods()
    a = np.asarray(uu.get_alpha_vec(np.asarray(W, dtype=float)), dtype=float)
    return a


def closed_mij(Wq, alpha, vi, vj):
    """min_n max(0, w_n·(vj−vi)) / α_n as a z3 term (min/max as If)"""
    terms = []
    for row, a in zip(Wq, alpha):
        p = dotz(row, [vj[k] - vi[k] for k in range(len(vi))])
        terms.append(z3.If(p >= 0, p, sym.rv(0)) / sym.rv(a))
    acc = terms[0]
    for t in terms[1:]:
        acc = z3.If(t <= acc, t, acc)
    return acc


def mij_task(cone, W, N, tier):
    """real get_smallmij / get_delta on symbolic value vectors; W and α concrete (α = what VOPy's
    own get_alpha_vec returns on this run, cross-checked against the independent KKT oracle)"""
    uu, ev = _mods()
    W = np.asarray(W, dtype=float)
    K, m = W.shape
    alpha = _alpha_for(W)          # (K, 1) as stored in OrderingCone.alpha
    aflat = alpha.reshape(-1)
    Wq = Wz(W)
    proxy = NpProxy()
    ex = Explorer(f"gap[{cone},N={N}]", query_timeout_ms=120000, max_paths=20000)
    a_exact = exact_alpha(W)
    pre = []
    if np.abs(a_exact - aflat).max() > 1e-6:
        # the gap is defined with α_n = max{w_n·u : u ∈ C, ‖u‖ ≤ 1}: a wrong α makes every gap wrong (concrete, replayable)
        ex.candidate("α_n used by the gap functions = max of w_n·u over unit cone directions",
                     {"kind": "alpha", "cone": cone, "W": W.tolist()}, {"claim": "alpha", "cone": cone})

    def body(ctx):
        V = ctx.reals("v", N, m)
        vz = zs(V)
        with patched((uu, {"np": proxy})):
            mij = uu.get_smallmij(V[0], V[1], W, alpha)
            delta = uu.get_delta(V, W, alpha)
        ctx.witness("any")
        v = sym.to_z3(mij)
        claims = {}
        # (1) closed form with each facet's own α_n
        # (relative tolerance RT: α is a numerical cvxpy output, noisy in the 9th digit)
        cf01 = closed_mij(Wq, aflat, vz[0], vz[1])
        claims["m(i,j) = min_n max(0, w_n·(vj−vi))/α_n"] = z3.And(v >= cf01 * (1 - RT), v <= cf01 * (1 + RT))
        # (2) semantic: for every unit direction u of the cone, vj ≽ vi + v·u (when vj ≽ vi at all);
        #     α's defining property (C17) enters as the fact w_n·u ≤ α_n(1+τ)
        u = [ctx.fresh("u") for _ in range(m)]
        unit_in_cone = z3.And(sum((x * x for x in u), sym.rv(0)) == 1, zand([dotz(r, u) >= 0 for r in Wq]),
                              zand([dotz(r, u) <= sym.rv(Fraction(float(a)) * (1 + TAU)) for r, a in zip(Wq, aflat)]))
        dom = zand([dotz(r, [vz[1][k] - vz[0][k] for k in range(m)]) >= 0 for r in Wq])
        shifted = zand([dotz(r, [vz[1][k] - vz[0][k] - v * (1 - 2 * sym.rv(TAU)) * u[k] for k in range(m)]) >= 0
                        for r in Wq])
        if m == 2 or cone in ("orthant3", "3d_acute"):  # 3-D obtuse / K>m: nlsat returns unknown (stated bound)
          claims["vj ≽ vi + m·u for every unit u∈C (else m = 0)"] = z3.And(
            z3.Implies(z3.And(dom, unit_in_cone), shifted), z3.Implies(z3.Not(dom), v == 0), v >= 0)
        # (3) gaps: Δ_i = max_j m(i,j); zero exactly for designs not dominated in the interior
        if np.shape(delta) != (N, 1):
            claims["get_delta shape (N,1)"] = z3.BoolVal(False)
        else:
            dz = [sym.to_z3(np.asarray(delta, dtype=object)[i, 0]) for i in range(N)]
            per = []
            for i in range(N):
                cands = [closed_mij(Wq, aflat, vz[i], vz[j]) for j in range(N)]
                per.append(z3.And(zand([dz[i] >= c * (1 - RT) for c in cands]),
                                  zor([z3.And(dz[i] >= c * (1 - RT), dz[i] <= c * (1 + RT)) for c in cands])))
                interior = zor([zand([dotz(r, [vz[j][k] - vz[i][k] for k in range(m)]) > 0 for r in Wq])
                                for j in range(N) if j != i])
                per.append((dz[i] == 0) == z3.Not(interior))
            claims["Δ_i = max_j m(i,j); Δ_i = 0 ⇔ not dominated in the interior"] = zand(per)
        for name, cl in claims.items():
            mdl = ctx.prove(name, cl)
            if mdl is not None:
                ex.candidate(name, {"kind": "gap", "cone": cone, "W": W.tolist(),
                                    "V": frac_json([[model_value(mdl, e) for e in row] for row in vz])},
                             {"claim": name, "cone": cone,
                              "alpha_spread": float(aflat.max() / aflat.min())})
                return
        ctx.sample({"cone": cone, "N": N, "alpha": aflat.tolist()})

    ex.run(body)
    ex.finalize(replay)
    r = ex.result()
    r["inconclusive"].extend(pre)
    r["config"] = {"cone": cone, "N": N, "m": m, "K": K, "alpha": aflat.tolist()}
    return r


def _exact_mij(W, alpha, vi, vj):
    vals = []
    for row, a in zip(W, alpha):
        p = sum(Fraction(float(w)) * (Fraction(float(y)) - Fraction(float(x))) for w, x, y in zip(row, vi, vj))
        vals.append(max(p, Fraction(0)) / Fraction(float(a)))
    return min(vals)


def replay(case):
    uu, ev = _mods()
    k = case["kind"]
    if k == "gap":
        W = np.array(case["W"], dtype=float)
        V = np.array([[float(Fraction(x)) for x in row] for row in from_frac_json(case["V"])])
        alpha = _alpha_for(W)
        a_ex = exact_alpha(W)
        try:
            got = float(uu.get_smallmij(V[0].copy(), V[1].copy(), W, alpha))
            delta = np.asarray(uu.get_delta(V.copy(), W, alpha), dtype=float).reshape(-1)
        except Exception as ex:  # noqa
            return {"reproduced": True, "detail": "raised " + repr(ex)}
        want = float(_exact_mij(W, a_ex, V[0], V[1]))
        wd = [max(float(_exact_mij(W, a_ex, V[i], V[j])) for j in range(len(V))) for i in range(len(V))]
        tol = 1e-6 * (1 + abs(want))
        bad = abs(got - want) > tol or any(abs(a - b) > 1e-6 * (1 + abs(b)) for a, b in zip(delta, wd))
        return {"reproduced": bool(bad), "detail": f"get_smallmij={got} (definition: {want}); get_delta={delta.tolist()} "
                f"(definition: {wd}); alpha={alpha.reshape(-1).tolist()}"}
    if k == "cover":
        W = np.array(case["W"], dtype=float)
        vi = np.array([float(Fraction(x)) for x in from_frac_json(case["vi"])])
        vj = np.array([float(Fraction(x)) for x in from_frac_json(case["vj"])])
        eps = float(Fraction(from_frac_json(case["eps"])))
        try:
            code = bool(uu.is_covered(vi, vj, eps, W))
        except Exception as ex:  # noqa
            return {"reproduced": True, "detail": "raised " + repr(ex)}
        sure = _cover_oracle(W, vi, vj, eps, 1e-6)
        poss = _cover_oracle(W, vi, vj, eps, -1e-6)
        if sure != poss:
            return {"reproduced": False, "detail": "within 1e-6 of the boundary"}
        return {"reproduced": code != sure, "detail": f"real is_covered={code}, oracle={sure}"}
    if k == "f1":
        return _replay_f1(case)
    if k == "uncovered":
        return _replay_uncovered(case)
    if k == "alpha":
        W = np.array(case["W"], dtype=float)
        got, want = _alpha_for(W).reshape(-1), exact_alpha(W)
        # second opinion on the oracle itself: no unit cone direction on a dense sample may beat it, and it is attained
        rng = np.random.RandomState(0)
        U = rng.normal(size=(200000, W.shape[1]))
        U /= np.linalg.norm(U, axis=1, keepdims=True)
        U = U[np.all(U @ W.T >= 0, axis=1)]
        samp = (U @ W.T).max(axis=0) if len(U) else np.zeros(len(W))
        oracle_ok = bool(np.all(samp <= want + 1e-9))
        bad = bool(np.abs(got - want).max() > 1e-6) and oracle_ok
        return {"reproduced": bad, "detail": f"get_alpha_vec = {got.tolist()}, max of w_n·u over unit cone directions = {want.tolist()} "
                f"(sampled lower bounds {np.round(samp, 4).tolist()})"}
    return {"reproduced": False, "detail": "unknown kind"}


def _cover_oracle(W, vi, vj, eps, margin):
    """definition: ∃c∈C, ‖c‖ ≤ ε, vj + c ≽ vi — least-distance formulation with scipy NNLS-free
    projected search: minimise ‖c‖ s.t. Wc ≥ 0, W(vj + c − vi) ≥ 0 (QP via SLSQP from several starts)"""
    from scipy.optimize import minimize as spmin
    m = len(vi)
    cons = [{"type": "ineq", "fun": lambda c: W @ c - margin},
            {"type": "ineq", "fun": lambda c: W @ (vj + c - vi) - margin}]
    best = np.inf
    for start in (np.zeros(m), np.ones(m), vi - vj, np.abs(vi - vj) + 1):
        res = spmin(lambda c: c @ c, start, constraints=cons, method="SLSQP", options={"ftol": 1e-14, "maxiter": 500})
        if res.success or res.status == 0:
            if np.all(W @ res.x >= margin - 1e-9) and np.all(W @ (vj + res.x - vi) >= margin - 1e-9):
                best = min(best, float(np.sqrt(res.fun)))
    return best <= eps * (1 - margin) - margin if margin > 0 else best <= eps * (1 - margin) - margin


def cover_task(cone, W, tier):
    uu, ev = _mods()
    W = np.asarray(W, dtype=float)
    K, m = W.shape
    Wq = Wz(W)
    proxy = NpProxy()
    ex = Explorer(f"eps_cover[{cone}]", query_timeout_ms=120000)

    def definition(vi, vj, eps, c):
        return z3.And(zand([dotz(r, c) >= 0 for r in Wq]), eps >= 0,
                      sum((x * x for x in c), sym.rv(0)) <= eps * eps,
                      zand([dotz(r, [vj[k] + c[k] - vi[k] for k in range(m)]) >= 0 for r in Wq]))

    def body(ctx):
        vi, vj = ctx.reals("vi", m), ctx.reals("vj", m)
        eps = ctx.real("eps")
        ctx.assume(eps >= 0)
        with patched((uu, {"np": proxy, "cp": cpshim.CpShim})):
            ret = uu.is_covered(vi, vj, eps, W)
        if not isinstance(ret, (bool, np.bool_)):
            raise HarnessError(f"is_covered returned {type(ret)}")
        ret = bool(ret)
        p = cpshim.problems(ctx)[0]
        ctx.witness(p["outcome"])
        viz, vjz = zs(vi), zs(vj)
        if p["outcome"] == "feasible":
            x = p["witness"]
            c = [x[k] + viz[k] - vjz[k] for k in range(m)]
            claim = z3.And(z3.BoolVal(ret), definition(viz, vjz, eps.e, c))
            name = "program feasible ⇒ True ∧ definition holds at c = x + vi − vj"
        else:
            c = [ctx.fresh("c") for _ in range(m)]
            ctx.fact(p["universal"].at([c[k] - viz[k] + vjz[k] for k in range(m)]))
            claim = z3.And(z3.BoolVal(not ret), z3.Not(definition(viz, vjz, eps.e, c)))
            name = "program infeasible ⇒ False ∧ no cone vector of norm ≤ ε works"
        mdl = ctx.prove(name, claim)
        if mdl is not None:
            for extra in ([], [eps.e >= Fraction(1, 10)]):
                try:
                    m2 = ctx.satisfiable([z3.Not(claim)] + extra, timeout_ms=60000)
                except Inconclusive:
                    m2 = None
                if m2 is not None:
                    ex.candidate(name, {"kind": "cover", "cone": cone, "W": W.tolist(),
                                        "vi": frac_json([model_value(m2, e) for e in viz]),
                                        "vj": frac_json([model_value(m2, e) for e in vjz]),
                                        "eps": frac_json(model_value(m2, eps.e))},
                                 {"claim": name, "cone": cone, "returned": ret}, limit=6)
            return
        ctx.sample({"cone": cone, "outcome": p["outcome"], "ret": ret})

    ex.run(body)
    ex.finalize(replay)
    if any(v.get("reproduced") for v in ex.violations):
        ex.violations = [v for v in ex.violations if v.get("reproduced")]
    r = ex.result()
    for lab in ("feasible", "infeasible"):
        if not ex.witnessed.get(lab):
            r["inconclusive"].append(f"vacuity: outcome {lab} never reached")
    r["config"] = {"cone": cone, "m": m, "K": K}
    return r


# -- ε-coverage counts --------------------------------------------------------------------------
_LAMBDAS2 = [(1, 0), (0, 1), (1, 1), (2, 1), (1, 2)]


def uncovered_task(cone, W, n1, n2, which, tier):
    """real get_uncovered_size / get_uncovered_set on symbolic value vectors: the reported count (set) is
    exactly the points of the first family that no point of the second ε-covers.  The per-pair oracle is
    is_covered itself (proved equal to the geometric definition by eps_cover), called again by the
    harness for every pair; answers for the same pair are tied together by instantiating each
    infeasibility fact at the other call's witness."""
    uu, ev = _mods()
    W = np.asarray(W, dtype=float)
    K, m = W.shape
    Wq = Wz(W)
    proxy = NpProxy()
    ex = Explorer(f"uncovered_{which}[{cone},{n1}x{n2}]", query_timeout_ms=120000, max_paths=20000)
    real_cov = uu.is_covered
    if K != 2 or m != 2:
        raise HarnessError("uncovered_task is set up for 2-facet 2-D cones")
    Wf = [[Fraction(float(x)) for x in row] for row in W]
    det = Wf[0][0] * Wf[1][1] - Wf[0][1] * Wf[1][0]
    Winv = [[sym.rv(Wf[1][1] / det), sym.rv(-Wf[0][1] / det)], [sym.rv(-Wf[1][0] / det), sym.rv(Wf[0][0] / det)]]
    nrm2 = [sym.rv(sum(x * x for x in row)) for row in Wf]

    def body(ctx):
        V = ctx.reals("v", n1 + n2, m)
        Vb = V.view(np.ndarray)
        eps = ctx.real("eps")
        ctx.assume(eps >= 0)
        first = {}

        def locate(v, lo, hi):
            vb = np.asarray(v, dtype=object).reshape(-1)
            for r in range(lo, hi):
                if len(vb) == m and all(vb[k] is Vb[r, k] for k in range(m)):
                    return r
            return None

        def rec(vi, vj, e, W_):
            n0 = len(cpshim.problems(ctx))
            out = real_cov(vi, vj, e, W_)
            ps = cpshim.problems(ctx)[n0:]
            i, j = locate(vi, 0, n1), locate(vj, n1, n1 + n2)
            if i is not None and j is not None and len(ps) == 1:
                first[(i, j)] = ps[0]
            return out

        with patched((uu, {"np": proxy, "cp": cpshim.CpShim, "is_covered": rec})):
            if which == "size":
                got = uu.get_uncovered_size(V[:n1], V[n1:], eps, W)
                reported = None
            else:
                got = uu.get_uncovered_set(list(range(n1)), list(range(n1, n1 + n2)), V, eps, W)
                reported = [int(i) for i in got]
                got = len(reported)
        vz = zs(V)
        with patched((uu, {"np": proxy, "cp": cpshim.CpShim})):
            cov = {}
            for i in range(n1):
                for j in range(n1, n1 + n2):
                    n0 = len(cpshim.problems(ctx))
                    c = real_cov(V[i], V[j], eps, W)
                    if not isinstance(c, (bool, np.bool_)):
                        raise HarnessError(f"is_covered returned {type(c)}")
                    cov[(i, j)] = bool(c)
                    q = cpshim.problems(ctx)[n0]
                    p_ = first.get((i, j))
                    if p_ is not None and p_["outcome"] != q["outcome"]:
                        a_, b_ = (q, p_) if q["outcome"] == "infeasible" else (p_, q)
                        ctx.fact(a_["universal"].at(b_["witness"]))
                    for pr in {id(q): q, id(p_): p_}.values():
                        if pr is not None and pr["outcome"] == "infeasible" and not pr.get("instantiated"):
                            pr["instantiated"] = True
                            # the least-norm point of {c : Wc ≥ max(0, Wd)} (d = vi − vj; K = m = 2, unit rows) is one
                            # of: b_k·w_k (one facet active) or W⁻¹b (both): instantiating there makes the
                            # infeasibility fact complete, so no spurious model survives
                            d = [vz[i][k] - vz[j][k] for k in range(m)]
                            b = [z3.If(dotz(r, d) >= 0, dotz(r, d), sym.rv(0)) for r in Wq]
                            cands = [[b[k] * Wq[k][t] / nrm2[k] for t in range(m)] for k in range(K)]
                            cands.append([dotz(Winv[t], b) for t in range(m)])
                            for c_ in cands:
                                ctx.fact(pr["universal"].at([c_[t] - d[t] for t in range(m)]))
        expected = [i for i in range(n1) if not any(cov[(i, j)] for j in range(n1, n1 + n2))]
        ctx.witness(f"uncovered={len(expected)}")
        ok = (int(got) == len(expected)) and (reported is None or reported == expected)
        name = "reported uncovered points = points that no prediction ε-covers"
        mdl = ctx.prove(name, z3.BoolVal(bool(ok)))
        if mdl is not None:
            # steer to a robust instance: every pair's verdict certified with a margin by a linear lower
            # bound on the least cone vector (λᵀmax(0,Wd) ≤ ‖Wᵀλ‖·‖c‖) or by the strict orthant-type witness
            certs = [eps.e >= Fraction(1, 10), eps.e <= 2]
            for (i, j), cv in cov.items():
                d = [vz[i][k] - vz[j][k] for k in range(m)]
                wd = [dotz(r, d) for r in Wq]
                pos = [z3.If(x >= 0, x, sym.rv(0)) for x in wd]
                if not cv and K == 2:
                    alts = []
                    for lam in _LAMBDAS2:
                        nrm = float(np.linalg.norm(W.T @ np.array(lam, dtype=float)))
                        alts.append(sum((l * x for l, x in zip(lam, pos)), sym.rv(0)) >=
                                    (eps.e * sym.rv(Fraction(102, 100)) + sym.rv(Fraction(1, 1000))) * sym.rv(Fraction(nrm)))
                    certs.append(zor(alts))
            for extra in (certs, [eps.e >= Fraction(1, 10)], []):
                try:
                    m2 = ctx.satisfiable(extra, timeout_ms=20000)
                except Inconclusive:
                    m2 = None
                if m2 is not None:
                    ex.candidate(name, {"kind": "uncovered", "which": which, "cone": cone, "W": W.tolist(), "n1": n1,
                                        "V": frac_json([[model_value(m2, e) for e in row] for row in vz]),
                                        "eps": frac_json(model_value(m2, eps.e))},
                                 {"claim": name, "cone": cone, "which": which}, limit=6)
                    break
            return
        ctx.sample({"cone": cone, "reported": int(got), "expected": expected})

    ex.run(body)
    ex.finalize(replay)
    if any(v.get("reproduced") for v in ex.violations):
        ex.violations = [v for v in ex.violations if v.get("reproduced")]
    r = ex.result()
    for k_ in range(n1 + 1):
        if not ex.witnessed.get(f"uncovered={k_}"):
            r["inconclusive"].append(f"vacuity: no path with {k_} uncovered points")
    r["config"] = {"cone": cone, "n1": n1, "n2": n2, "which": which}
    return r


def _replay_uncovered(case):
    uu, ev = _mods()
    W = np.array(case["W"], dtype=float)
    V = np.array([[float(Fraction(x)) for x in row] for row in from_frac_json(case["V"])])
    eps = float(Fraction(from_frac_json(case["eps"])))
    n1 = case["n1"]
    want = []
    for i in range(n1):
        sure = [_cover_oracle(W, V[i], V[j], eps, 1e-6) for j in range(n1, len(V))]
        poss = [_cover_oracle(W, V[i], V[j], eps, -1e-6) for j in range(n1, len(V))]
        if sure != poss:
            return {"reproduced": False, "detail": "within 1e-6 of the coverage boundary"}
        if not any(sure):
            want.append(i)
    try:
        if case["which"] == "size":
            got = int(uu.get_uncovered_size(V[:n1].copy(), V[n1:].copy(), eps, W))
            bad = got != len(want)
        else:
            got = [int(i) for i in uu.get_uncovered_set(list(range(n1)), list(range(n1, len(V))), V.copy(), eps, W)]
            bad = got != want
    except Exception as ex:  # noqa
        return {"reproduced": True, "detail": "raised " + repr(ex)}
    return {"reproduced": bool(bad), "detail": f"get_uncovered_{case['which']} = {got}; by the definition the uncovered points are "
            f"{want} (points {V[:n1].tolist()}, predictions {V[n1:].tolist()}, ε={eps})"}


# -- ε-F1 ------------------------------------------------------------------------------------
class _DS:
    def __init__(self, out):
        self.out_data = out


def f1_task(cone, W, N, scenario, tier):
    """ε-F1 laws on the real calculate_epsilonF1_score with symbolic data (N rows, m = 2):
    range [0,1]; = 1 when the prediction is the true Pareto set; invariant under permuting the
    predicted indices; non-decreasing in ε"""
    uu, ev = _mods()
    W = np.asarray(W, dtype=float)
    K, m = W.shape
    alpha = _alpha_for(W)
    order = make_order(W, alpha=alpha)
    Wq = Wz(W)
    proxy = NpProxy()
    ex = Explorer(f"f1[{cone},N={N},{scenario}]", query_timeout_ms=120000, max_paths=30000)
    true_sets = [list(s) for r in range(1, N + 1) for s in itertools.combinations(range(N), r)]
    state = {}

    def dom(a, b):
        return zand([dotz(r, [a[k] - b[k] for k in range(m)]) >= 0 for r in Wq])

    def is_pareto_set(vz, P):
        """P = exact Pareto set (one representative per value, as get_pareto_set returns it)"""
        strict = lambda j, i: z3.And(dom(vz[j], vz[i]), z3.Not(dom(vz[i], vz[j])))  # noqa
        return z3.And(zand([z3.Not(strict(j, i)) for i in P for j in range(N)]),
                      zand([zor([dom(vz[i], vz[k]) for i in P]) for k in range(N)]),
                      zand([z3.Not(z3.And(dom(vz[a], vz[b]), dom(vz[b], vz[a])))
                            for ai, a in enumerate(P) for b in P[ai + 1:]]))

    def run(V, true_idx, pred_idx, eps):
        with patched((uu, {"np": proxy, "cp": cpshim.CpShim}), (ev, {"np": proxy})):
            return ev.calculate_epsilonF1_score(_DS(V), order, np.array(true_idx), list(pred_idx), eps)

    def body(ctx):
        P, pred = state["P"], state["pred"]
        V = ctx.reals("v", N, m)
        vz = zs(V)
        eps = ctx.real("eps")
        ctx.assume(eps >= 0)
        ctx.assume(is_pareto_set(vz, P))
        f1 = run(V, P, pred, eps)
        ctx.witness("nan" if isinstance(f1, Special) else "value")
        if isinstance(f1, Special):
            # empty denominator: only possible when nothing is predicted correctly and nothing missed
            return
        f = sym.to_z3(f1)
        claims = {"0 ≤ F1 ≤ 1": z3.And(f >= 0, f <= 1)}
        if sorted(pred) == sorted(P):
            claims["F1 = 1 for the true Pareto set"] = f == 1
        if scenario == "permute" and len(pred) > 1:
            f1b = run(V, P, list(reversed(pred)), eps)
            claims["order of predicted indices ignored"] = z3.BoolVal(not isinstance(f1b, Special)) if \
                isinstance(f1b, Special) else f == sym.to_z3(f1b)
        if scenario == "monotone":
            eps2 = ctx.real("eps2")
            ctx.assume(eps2 >= eps)
            nprob = len(cpshim.problems(ctx))
            f1b = run(V, P, pred, eps2)
            # coverage at ε implies coverage at ε2 ≥ ε: instantiate the second run's infeasibility
            # facts at the first run's witnesses (same pair of value vectors)
            first, second = cpshim.problems(ctx)[:nprob], cpshim.problems(ctx)[nprob:]
            for q in second:
                if q["outcome"] == "infeasible":
                    for p_ in first:
                        if p_["outcome"] == "feasible" and len(p_["witness"]) == len(q["vars"]):
                            ctx.fact(q["universal"].at(p_["witness"]))
            if isinstance(f1b, Special):
                claims["F1 non-decreasing in ε"] = z3.BoolVal(False)
            else:
                claims["F1 non-decreasing in ε"] = sym.to_z3(f1b) >= f
        for name, cl in claims.items():
            mdl = ctx.prove(name, cl)
            if mdl is not None:
                ex.candidate(name, {"kind": "f1", "cone": cone, "W": W.tolist(), "true": P, "pred": pred,
                                    "V": frac_json([[model_value(mdl, e) for e in row] for row in vz]),
                                    "eps": frac_json(model_value(mdl, eps.e)), "claim": name,
                                    "eps2": frac_json(model_value(mdl, sym.to_z3(eps2))) if scenario == "monotone" else None},
                             {"claim": name, "cone": cone})
                return
        ctx.sample({"cone": cone, "true": P, "pred": pred, "scenario": scenario})

    preds_all = [list(s) for r in range(0, N + 1) for s in itertools.combinations(range(N), r)]
    for P in true_sets:
        for pred in preds_all:
            if scenario != "range" and tier == "quick" and len(pred) not in (len(P), len(P) - 1, N):
                continue
            if not pred and scenario != "range":
                continue
            state["P"], state["pred"] = P, pred
            ex.run(body)
    ex.finalize(replay)
    r = ex.result()
    r["config"] = {"cone": cone, "N": N, "scenario": scenario}
    return r


def _replay_f1(case):
    uu, ev = _mods()
    W = np.array(case["W"], dtype=float)
    V = np.array([[float(Fraction(x)) for x in row] for row in from_frac_json(case["V"])])
    alpha = _alpha_for(W)
    order = make_order(W, alpha=alpha)
    eps = float(Fraction(from_frac_json(case["eps"])))
    P, pred = case["true"], case["pred"]
    try:
        f = float(ev.calculate_epsilonF1_score(_DS(V), order, np.array(P), list(pred), eps))
        claim = case["claim"]
        if claim.startswith("0"):
            bad = not (-1e-12 <= f <= 1 + 1e-12)
        elif claim.startswith("F1 = 1"):
            bad = abs(f - 1) > 1e-9
        elif claim.startswith("order"):
            bad = abs(f - float(ev.calculate_epsilonF1_score(_DS(V), order, np.array(P), list(reversed(pred)), eps))) > 1e-12
        else:
            eps2 = float(Fraction(from_frac_json(case["eps2"])))
            f2 = float(ev.calculate_epsilonF1_score(_DS(V), order, np.array(P), list(pred), eps2))
            bad = f2 < f - 1e-9
            return {"reproduced": bool(bad), "detail": f"F1(ε={eps})={f}, F1(ε={eps2})={f2}"}
    except Exception as ex:  # noqa
        return {"reproduced": True, "detail": "raised " + repr(ex)}
    return {"reproduced": bool(bad), "detail": f"F1={f} for true={P}, pred={pred}, ε={eps}"}


def _asym3d():
    """an asymmetric 3-D cone whose facets have clearly different α_n (0.711, 0.716, 0.883): the gap formula must divide
    each facet's margin by that facet's own α_n"""
    W = np.array([[1.0, -0.8, 0.0], [0.0, 1.0, -0.2], [-0.3, 0.0, 1.0]])
    return W / np.linalg.norm(W, axis=1, keepdims=True)


def tasks(tier, seed):
    ts = []
    cones = cone_set(tier, seed=seed)
    for cone, W in cones:
        m = W.shape[1]
        N = 2 if (tier == "quick" or m == 3) else 3
        ts.append({"id": f"gap[{cone},N={N}]", "fn": "mij_task", "args": {"cone": cone, "W": W.tolist(), "N": N, "tier": tier},
                   "weight": 3 if m == 3 else 1})
        ts.append({"id": f"cover[{cone}]", "fn": "cover_task", "args": {"cone": cone, "W": W.tolist(), "tier": tier}})
    for cone, W in cones:
        if W.shape == (2, 2) and (tier != "quick" or cone in ("orthant2", "theta45", "theta60", "theta120")):
            for which in ("size", "set"):
                ts.append({"id": f"uncovered_{which}[{cone}]", "fn": "uncovered_task",
                           "args": {"cone": cone, "W": W.tolist(), "n2": 2,
                                    # 2 × 2 takes about 10 min per cone: a spread of cones only
                                    "n1": 2 if (tier != "quick" and cone in ("orthant2", "theta30", "theta60", "theta90", "theta120", "theta150")) else 1,
                                    "which": which, "tier": tier}, "weight": 5})
    f1_cones = [c for c in cones if c[0] in ("orthant2", "theta60", "theta120")]
    for cone, W in (f1_cones[:2] if tier == "quick" else f1_cones):
        for sc in ("range", "permute", "monotone"):
            if tier == "quick" and sc == "monotone" and cone != "theta60":
                continue
            ts.append({"id": f"f1[{cone},{sc}]", "fn": "f1_task",
                       # N = 3 did not finish in 90 min per scenario (coverage forks × gap forks × true/pred sets): N = 2 in both tiers,
                       # the thorough tier adds the third cone
                       "args": {"cone": cone, "W": W.tolist(), "N": 2, "scenario": sc, "tier": tier},
                       "weight": 20})
    return ts


def meta(tier):
    uu, ev = _mods()
    return {
        "level": "model_checking",
        "functions": src_info(uu.get_smallmij, uu.get_delta, uu.is_covered, uu.get_uncovered_size, uu.get_uncovered_set,
                              ev.calculate_epsilonF1_score),
        "bounds": {"N": "2 value vectors for ε-F1 and gaps (3 for gaps in the thorough tier, 2-D cones)", "m": "2 (3 for m(i,j))",
                   "coverage counts": "1 point (2 in the thorough tier for six cones) against 2 predictions, 2-facet 2-D cones", "cones": [c for c, _ in cone_set(tier)]},
        "stubs": ["cvxpy exact-answer stub for utils.is_covered", "α concrete = VOPy's own get_alpha_vec output "
                  "(cross-checked against an independent KKT oracle; its optimality is C17)"],
        "assumptions": ["floats are encoded as exact reals", "α's defining property w_n·u ≤ α_n for unit u∈C is used as a "
                        "fact with relative tolerance 1e-7 (C17)"],
        "outside": ["hypervolume monotonicity (botorch Hypervolume on torch tensors: not encodable)"],
        "explanation": "real gap / coverage / F1 code on symbolic value vectors, proved equal to the definitions",
    }
