"""C14 — displayed confidence regions are exactly the model's prediction, scaled."""
from __future__ import annotations

import itertools
from fractions import Fraction

import numpy as np
import z3

from symx import sym
from symx.arr import NpProxy, SymArray, symarray
from symx.explore import Explorer, Inconclusive, model_value
from symx.harness import frac_json, from_frac_json, patched, src_info, zand, zor, zs
from symx.sym import HarnessError, Sym

PROPERTY = "C14"


def _mods():
    import vopy.confidence_region as cr
    import vopy.design_space as ds
    import vopy.utils.utils as uu
    return ds, cr, uu


class StubModel:
    """stub posterior: predict(X) returns, for each requested input row, the symbolic mean and
    covariance of *that design* (rows are tagged by the design input, so a mis-zipped row is a
    different term).  Shape contract: means (n, m), covariances (n, m, m)."""

    def __init__(self, points, mus, covs):
        self.points = np.asarray(points, dtype=float)
        self.mus, self.covs = mus, covs
        self.calls = []

    def _locate(self, X):
        out = []
        for row in np.asarray(X, dtype=float):
            d = np.abs(self.points - row[None, :]).sum(axis=1)
            i = int(np.argmin(d))
            if d[i] != 0:
                raise HarnessError("stub model queried at a point that is not a design")
            out.append(i)
        return out

    def predict(self, X):
        idx = self._locate(X)
        self.calls.append(idx)
        mu = np.empty((len(idx),) + np.shape(self.mus)[1:], dtype=object)
        cov = np.empty((len(idx),) + np.shape(self.covs)[1:], dtype=object)
        for k, i in enumerate(idx):
            mu[k] = self.mus.view(np.ndarray)[i]
            cov[k] = self.covs.view(np.ndarray)[i]
        return mu.view(SymArray), cov.view(SymArray)


def _sym_cov(ctx, name, N, m, diagonal):
    C = np.empty((N, m, m), dtype=object)
    for i in range(N):
        for a in range(m):
            for b in range(a, m):
                if a == b:
                    v = ctx.real(f"{name}_{i}_{a}{a}")
                    ctx.assume(v > 0)
                elif diagonal:
                    v = Sym(sym.rv(0))
                else:
                    v = ctx.real(f"{name}_{i}_{a}{b}")
                C[i, a, b] = v
                C[i, b, a] = v
    return C.view(SymArray)


def _index_lists(N, tier):
    out = [None]
    for k in range(1, N + 1):
        for sub in itertools.permutations(range(N), k):
            out.append(list(sub))
    if tier == "quick" and N >= 3:
        out = [None] + [l for l in out[1:] if len(l) <= 2] + [[2, 0, 1], [0, 1, 2]]
    return out


def update_task(space, ctype, N, m, scale_kind, tier):
    """real design_space.update on a stub posterior for every index list (every subset in every
    order, including single designs) and the given scale form"""
    ds, cr, uu = _mods()
    proxy = NpProxy()
    ex = Explorer(f"update[{space},{ctype},N={N},m={m},scale={scale_kind}]", query_timeout_ms=60000)
    state = {}

    def build(ctx):
        if space == "fixed":
            pts = np.array([[i / max(1, N - 1)] for i in range(N)], dtype=float)
            d = ds.FixedPointsDesignSpace(pts, m, confidence_type=ctype)
        else:
            d = ds.AdaptivelyDiscretizedDesignSpace(1, m, delta=0.1, max_depth=5)
            d.refine_design(0)          # points: root, two children -> 3 designs
            while len(d.points) < N:
                d.refine_design(len(d.points) - 1)
            pts = np.array(d.points, dtype=float)
        return d, pts

    def body(ctx):
        idxs = state["idxs"]
        d, pts = build(ctx)
        Nn = len(pts)
        mus = ctx.reals("mu", Nn, m)
        covs = _sym_cov(ctx, "cov", Nn, m, diagonal=(ctype == "hyperrectangle" and tier == "quick"))
        model = StubModel(pts, mus, covs)
        n = Nn if idxs is None else len(idxs)
        expect_error = None
        if scale_kind == "scalar":
            sc = np.empty((), dtype=object); sc[()] = ctx.real("s"); sc = sc.view(SymArray)
            srow = lambda k: [sc.view(np.ndarray)[()]] * m  # noqa
        elif scale_kind == "per_objective":
            sc = ctx.reals("s", m)
            srow = lambda k: list(sc.view(np.ndarray))  # noqa
            if ctype == "hyperellipsoid":
                expect_error = ValueError
        elif scale_kind == "per_design":
            sc = ctx.reals("s", n, m if ctype == "hyperrectangle" else 1)
            srow = lambda k: list(sc.view(np.ndarray)[k]) * (1 if ctype == "hyperrectangle" else m)  # noqa
        elif scale_kind == "bad_rows":
            sc = ctx.reals("s", n + 1, m)
            expect_error = ValueError
        elif scale_kind == "bad_ndim":
            sc = ctx.reals("s", n, m, 1)
            expect_error = ValueError
        ctx.assume(sc >= 0)
        before = [(r, dict(r.__dict__)) for r in d.confidence_regions]
        try:
            d.update(model, sc, None if idxs is None else list(idxs))
            raised = None
        except ValueError as e:
            raised = e
        ctx.witness("raised" if raised else "updated")
        if (raised is not None) != (expect_error is not None):
            mdl = ctx.satisfiable()
            ex.candidate("ValueError exactly for unsupported scale shapes",
                         _case(mdl, state, space, ctype, Nn, m, scale_kind, mus, covs, sc),
                         {"space": space, "ctype": ctype, "scale": scale_kind})
            return
        if raised is not None:
            return
        upd = list(range(Nn)) if idxs is None else list(idxs)
        claims = []
        muz, covz = mus.view(np.ndarray), covs.view(np.ndarray)
        for k, i in enumerate(upd):
            reg = d.confidence_regions[i]
            if ctype == "hyperrectangle":
                lo, up = np.asarray(reg.lower, dtype=object), np.asarray(reg.upper, dtype=object)
                if lo.shape != (m,) or up.shape != (m,):
                    claims.append(z3.BoolVal(False))
                    continue
                for j in range(m):
                    std = ctx.sqrt_of(sym.to_z3(covz[i, j, j]), nonneg=True)
                    s = sym.to_z3(srow(k)[j])
                    claims.append(sym.to_z3(lo[j]) == sym.to_z3(muz[i, j]) - s * std.e)
                    claims.append(sym.to_z3(up[j]) == sym.to_z3(muz[i, j]) + s * std.e)
                    claims.append(sym.to_z3(lo[j]) <= sym.to_z3(up[j]))
                    c = reg.center
                    claims.append(sym.to_z3(np.asarray(c, dtype=object)[j]) == sym.to_z3(muz[i, j]))
            else:
                cen = np.asarray(reg.center, dtype=object)
                sig = np.asarray(reg.sigma, dtype=object)
                al = np.asarray(reg.alpha, dtype=object).ravel()
                if cen.shape != (m,) or sig.shape != (m, m) or al.size != 1:
                    claims.append(z3.BoolVal(False))
                    continue
                claims.append(sym.to_z3(al[0]) == sym.to_z3(srow(k)[0]))
                for j in range(m):
                    claims.append(sym.to_z3(cen[j]) == sym.to_z3(muz[i, j]))
                    for l in range(m):
                        claims.append(sym.to_z3(sig[j, l]) == sym.to_z3(covz[i, j, l]))
        untouched = all(r.__dict__.keys() == old.keys() and all(r.__dict__[k_] is old[k_] for k_ in old)
                        for j, (r, old) in enumerate(before) if j not in upd)
        claims.append(z3.BoolVal(bool(untouched)))
        mdl = ctx.prove("updated regions = prediction scaled; others untouched", zand(claims))
        if mdl is not None:
            # steer to a well-scaled instance (a model with huge means or a vanishing scale hides a small absolute
            # discrepancy below the replay's relative tolerance)
            wellscaled = []
            for v in np.asarray(mus, dtype=object).ravel():
                wellscaled += [sym.to_z3(v) >= -1, sym.to_z3(v) <= 1]
            for v in np.asarray(sc, dtype=object).ravel():
                wellscaled += [sym.to_z3(v) >= 1, sym.to_z3(v) <= 2]
            for v in np.asarray(covs, dtype=object).ravel():
                wellscaled += [sym.to_z3(v) <= 1, sym.to_z3(v) >= -1]
            try:
                mdl = ctx.satisfiable([z3.Not(zand(claims))] + wellscaled, timeout_ms=30000) or mdl
            except Inconclusive:
                pass
            ex.candidate("updated regions = prediction scaled; others untouched",
                         _case(mdl, state, space, ctype, Nn, m, scale_kind, mus, covs, sc),
                         {"space": space, "ctype": ctype, "scale": scale_kind, "indices": str(idxs)})
            return
        ctx.sample({"space": space, "ctype": ctype, "indices": idxs, "scale": scale_kind,
                    "predict_calls": model.calls})

    with patched((ds, {"np": proxy}), (cr, {"np": proxy}), (uu, {"np": proxy})):
        for idxs in _index_lists(N, tier):
            state["idxs"] = idxs
            ex.run(body)
    ex.finalize(replay)
    r = ex.result()
    r["config"] = {"space": space, "ctype": ctype, "N": N, "m": m, "scale": scale_kind,
                   "index_lists": len(_index_lists(N, tier))}
    return r


def _case(mdl, state, space, ctype, N, m, scale_kind, mus, covs, sc):
    g = lambda a: frac_json([[model_value(mdl, sym.to_z3(v)) for v in np.asarray(row, dtype=object).ravel()]  # noqa
                             for row in np.asarray(a, dtype=object).reshape(len(a) if np.ndim(a) else 1, -1)])
    return {"kind": "update", "space": space, "ctype": ctype, "N": N, "m": m, "scale_kind": scale_kind,
            "indices": state["idxs"], "mus": g(mus), "covs": g(covs), "scale": g(sc),
            "scale_shape": list(np.shape(sc))}


class ConcreteStub:
    def __init__(self, points, mus, covs):
        self.points, self.mus, self.covs = np.asarray(points, float), mus, covs

    def predict(self, X):
        idx = [int(np.argmin(np.abs(self.points - r[None, :]).sum(axis=1))) for r in np.asarray(X, float)]
        return self.mus[idx], self.covs[idx]


def replay(case):
    ds, cr, uu = _mods()
    if case["kind"] == "intersect":
        return _replay_intersect(case)
    if case["kind"] == "model_contract":
        return _replay_contract(case)
    N, m = case["N"], case["m"]
    F = lambda a: np.array([[float(Fraction(v)) for v in row] for row in from_frac_json(a)])  # noqa
    mus = F(case["mus"]).reshape(N, m)
    covs = F(case["covs"]).reshape(N, m, m)
    sc = F(case["scale"]).reshape(case["scale_shape"])
    if case["space"] == "fixed":
        pts = np.array([[i / max(1, N - 1)] for i in range(N)], dtype=float)
        d = ds.FixedPointsDesignSpace(pts, m, confidence_type=case["ctype"])
    else:
        d = ds.AdaptivelyDiscretizedDesignSpace(1, m, delta=0.1, max_depth=5)
        d.refine_design(0)
        while len(d.points) < N:
            d.refine_design(len(d.points) - 1)
        pts = np.array(d.points)
    model = ConcreteStub(pts, mus, covs)
    idxs = case["indices"]
    before = [dict(r.__dict__) for r in d.confidence_regions]
    expect_err = case["scale_kind"] in ("bad_rows", "bad_ndim") or \
        (case["scale_kind"] == "per_objective" and case["ctype"] == "hyperellipsoid")
    try:
        d.update(model, sc, None if idxs is None else list(idxs))
        raised = False
    except ValueError:
        raised = True
    except Exception as ex:  # noqa
        return {"reproduced": True, "detail": "update raised " + repr(ex)}
    if raised != expect_err:
        return {"reproduced": True, "detail": f"ValueError raised={raised}, expected={expect_err}"}
    if raised:
        return {"reproduced": False, "detail": "raised as expected"}
    upd = list(range(N)) if idxs is None else list(idxs)
    scr = np.broadcast_to(sc if sc.ndim == 2 else np.atleast_1d(sc)[None, :], (len(upd), m if case["ctype"] == "hyperrectangle" else 1)) \
        if not (sc.ndim == 2 and sc.shape[1] == 1) else sc
    for k, i in enumerate(upd):
        reg = d.confidence_regions[i]
        if case["ctype"] == "hyperrectangle":
            std = np.sqrt(np.diag(covs[i]))
            s = np.broadcast_to(scr[k], (m,))
            if np.shape(reg.lower) != (m,) or not np.allclose(reg.lower, mus[i] - s * std, rtol=1e-9, atol=1e-12) \
                    or not np.allclose(reg.upper, mus[i] + s * std, rtol=1e-9, atol=1e-12):
                return {"reproduced": True, "detail": f"design {i}: region [{reg.lower},{reg.upper}] != "
                        f"mean ± scale·std = [{mus[i] - s * std},{mus[i] + s * std}]"}
        else:
            if not (np.allclose(reg.center, mus[i]) and np.allclose(reg.sigma, covs[i])
                    and np.allclose(np.ravel(reg.alpha), np.ravel(scr[k])[0])):
                return {"reproduced": True, "detail": f"design {i}: ellipsoid differs from prediction"}
    for j, old in enumerate(before):
        if j not in upd and any(d.confidence_regions[j].__dict__[k_] is not old[k_] for k_ in old):
            return {"reproduced": True, "detail": f"design {j} not in the update list was modified"}
    return {"reproduced": False, "detail": "real update agrees with the specification"}


# ------------------------------------------------------------------------------------------
def intersect_task(m, steps, tier):
    """RectangularConfidenceRegion.update sequences with iterative intersection on: each update
    yields the intersection with the previous rectangle, or the new one when disjoint;
    lower <= upper is an invariant (one-step induction from an arbitrary valid rectangle)"""
    ds, cr, uu = _mods()
    proxy = NpProxy()
    ex = Explorer(f"intersect[m={m},steps={steps}]", query_timeout_ms=60000)

    def body(ctx):
        l0, u0 = ctx.reals("l0", m), ctx.reals("u0", m)
        ctx.assume(l0 <= u0)
        reg = cr.RectangularConfidenceRegion(m, l0, u0, intersect_iteratively=True)
        prev_l, prev_u = zs(l0), zs(u0)
        tags = []
        for t in range(steps):
            mu = ctx.reals(f"mu{t}", m)
            cov = _sym_cov(ctx, f"c{t}", 1, m, diagonal=False)[0]
            s = ctx.reals(f"s{t}", m)
            ctx.assume(s >= 0)
            reg.update(mu, cov, s)
            L, U = [], []
            for j in range(m):
                std = ctx.sqrt_of(sym.to_z3(cov.view(np.ndarray)[j, j]), nonneg=True)
                L.append(sym.to_z3(mu.view(np.ndarray)[j]) - sym.to_z3(s.view(np.ndarray)[j]) * std.e)
                U.append(sym.to_z3(mu.view(np.ndarray)[j]) + sym.to_z3(s.view(np.ndarray)[j]) * std.e)
            lo, up = zs(symarray(reg.lower)), zs(symarray(reg.upper))
            interiors_meet = zand([z3.And(prev_l[j] < U[j], L[j] < prev_u[j]) for j in range(m)])
            disjoint = zor([z3.Or(prev_l[j] > U[j], L[j] > prev_u[j]) for j in range(m)])
            is_inter = zand([z3.And(lo[j] == z3.If(prev_l[j] >= L[j], prev_l[j], L[j]),
                                    up[j] == z3.If(prev_u[j] <= U[j], prev_u[j], U[j])) for j in range(m)])
            is_new = zand([z3.And(lo[j] == L[j], up[j] == U[j]) for j in range(m)])
            claim = z3.And(z3.Implies(interiors_meet, is_inter), z3.Implies(disjoint, is_new),
                           z3.Or(is_inter, is_new), zand([lo[j] <= up[j] for j in range(m)]))
            mdl = ctx.prove(f"step{t}: intersection | new when disjoint; lower<=upper", claim)
            if mdl is not None:
                vals = {"l": [model_value(mdl, e) for e in prev_l], "u": [model_value(mdl, e) for e in prev_u],
                        "L": [model_value(mdl, e) for e in L], "U": [model_value(mdl, e) for e in U]}
                ex.candidate("intersection", {"kind": "intersect", **{k: frac_json(v) for k, v in vals.items()}},
                             {"step": t})
                return
            prev_l, prev_u = lo, up
            tags.append("i" if ctx.satisfiable(is_inter) is not None and False else "?")
        ctx.witness("done")
        ctx.sample({"m": m, "steps": steps, "decisions": len(ctx.decisions)})

    with patched((cr, {"np": proxy}), (uu, {"np": proxy})):
        ex.run(body)
    ex.finalize(replay)
    r = ex.result()
    r["config"] = {"m": m, "steps": steps}
    return r


def _replay_intersect(case):
    ds, cr, uu = _mods()
    g = lambda k: np.array([float(Fraction(v)) for v in from_frac_json(case[k])])  # noqa
    l, u, L, U = g("l"), g("u"), g("L"), g("U")
    reg = cr.RectangularConfidenceRegion(len(l), l.copy(), u.copy(), intersect_iteratively=True)
    reg.intersect(L.copy(), U.copy())
    meet = np.all((l < U) & (L < u))
    disj = np.any((l > U) | (L > u))
    inter = np.allclose(reg.lower, np.maximum(l, L)) and np.allclose(reg.upper, np.minimum(u, U))
    new = np.allclose(reg.lower, L) and np.allclose(reg.upper, U)
    bad = (meet and not inter) or (disj and not new) or not (inter or new) or np.any(reg.lower > reg.upper)
    return {"reproduced": bool(bad), "detail": f"prev=[{l},{u}] new=[{L},{U}] -> [{reg.lower},{reg.upper}]"}


# ------------------------------------------------------------------------------------------
def contract_task(tier):
    """stub-contract validation against the real model classes (concrete): predict must return
    means (n, m) and covariances (n, m, m) for n = 1, 2, 3 — otherwise the symbolic verdict does
    not transfer to that class, and since the property includes 'a single design' and 'all model
    classes' the concrete consequence through design_space.update is reported as a violation."""
    out = {"harness": "model_contract", "paths": 0, "transitions": 0, "queries": {}, "solver_s": 0.0,
           "violations": [], "inconclusive": [], "obligations": {}, "samples": [], "recorded": []}
    for cls_name in ("IndependentExactGPyTorchModel", "CorrelatedExactGPyTorchModel",
                     "GPyTorchModelListExactModel", "EmpiricalMeanVarModel"):
        for m in (2, 3):
            case = {"kind": "model_contract", "cls": cls_name, "m": m}
            try:
                rep = _replay_contract(case)
            except Exception as ex:  # noqa
                out["inconclusive"].append(f"contract validation of {cls_name} failed to run: {ex!r}")
                continue
            out["paths"] += 1
            out["recorded"].append({"cls": cls_name, "m": m, **{k: v for k, v in rep.items() if k != "reproduced"}})
            if rep["reproduced"]:
                out["violations"].append({"obligation": "single-design update matches predict on the full design matrix",
                                          "case": case, "reproduced": True, "replay_detail": rep["detail"],
                                          "features": {"model_class": cls_name, "m": m,
                                                       "single_point_mean_shape": str(rep.get("shape_n1"))}})
    out["transitions"] = out["paths"]
    out["concrete_validations"] = out["paths"]
    out["samples"] = out["recorded"][:2]
    return out


def _make_model(cls_name, m):
    import torch
    import vopy.models as vm
    torch.manual_seed(0)
    rng = np.random.RandomState(0)
    X = np.linspace(0, 1, 5).reshape(-1, 1)
    Y = rng.normal(size=(5, m))
    if cls_name == "EmpiricalMeanVarModel":
        mod = vm.EmpiricalMeanVarModel(1, m, 0.1, design_count=4)
        mod.add_sample([0, 1, 2, 3, 0], Y)
        mod.update()
        pts = np.array([[0.0, 0], [0.3, 1], [0.6, 2], [1.0, 3]])
        return mod, pts
    cls = getattr(vm, cls_name)
    mod = cls(1, m, 0.1)
    if cls_name == "GPyTorchModelListExactModel":
        for d in range(m):
            mod.add_sample(X, Y[:, d], [d] * len(X))
    else:
        mod.add_sample(X, Y)
    mod.update()
    pts = np.array([[0.1], [0.35], [0.62], [0.9]])
    return mod, pts


def _replay_contract(case):
    ds, cr, uu = _mods()
    m = case["m"]
    mod, pts = _make_model(case["cls"], m)
    shapes = {}
    for n in (1, 2, 3):
        mu, cov = mod.predict(pts[:n])
        shapes[n] = (tuple(np.shape(mu)), tuple(np.shape(cov)))
    full_mu, full_cov = mod.predict(pts)
    d = ds.FixedPointsDesignSpace(pts, m, confidence_type="hyperrectangle")
    scale = np.array(2.0)
    bad = None
    for i in range(len(pts)):
        try:
            d.update(mod, scale, [i])
        except Exception as ex:  # noqa
            bad = f"update(model, scale, [{i}]) raised {ex!r}"
            break
        reg = d.confidence_regions[i]
        std = np.sqrt(np.diag(full_cov[i]))
        if np.shape(reg.lower) != (m,) or not np.allclose(reg.lower, full_mu[i] - 2 * std, rtol=1e-4, atol=1e-5) or \
                not np.allclose(reg.upper, full_mu[i] + 2 * std, rtol=1e-4, atol=1e-5):
            bad = (f"single-design update of design {i}: region [{np.round(reg.lower, 4)}, {np.round(reg.upper, 4)}] "
                   f"but predict(all) gives mean {np.round(full_mu[i], 4)} ± 2·std {np.round(2 * std, 4)}")
            break
    ok_shapes = all(shapes[n] == ((n, m), (n, m, m)) for n in (1, 2, 3))
    return {"reproduced": bad is not None, "detail": bad or "single-design updates agree with predict(all)",
            "shapes": {str(k): str(v) for k, v in shapes.items()}, "shape_n1": shapes[1][0],
            "contract_ok": ok_shapes}


# ------------------------------------------------------------------------------------------
def tasks(tier, seed):
    ts = []
    N = 3 if tier == "quick" else 4
    for space, ctype in (("fixed", "hyperrectangle"), ("fixed", "hyperellipsoid"), ("adaptive", "hyperrectangle")):
        for m in ((2,) if tier == "quick" else (2, 3)):
            for sk in ("scalar", "per_objective", "per_design", "bad_rows", "bad_ndim"):
                ts.append({"id": f"update[{space},{ctype},m={m},{sk}]", "fn": "update_task",
                           "args": {"space": space, "ctype": ctype, "N": N if m == 2 else 3, "m": m,
                                    "scale_kind": sk, "tier": tier}, "weight": 3})
    for m, steps in (((2, 2),) if tier == "quick" else ((2, 3), (3, 2))):
        ts.append({"id": f"intersect[m={m},steps={steps}]", "fn": "intersect_task",
                   "args": {"m": m, "steps": steps, "tier": tier}, "weight": 10})
    ts.append({"id": "model_contract", "fn": "contract_task", "args": {"tier": tier}, "weight": 8})
    return ts


def meta(tier):
    ds, cr, uu = _mods()
    return {
        "level": "model_checking",
        "functions": src_info(ds.FixedPointsDesignSpace.__init__, ds.FixedPointsDesignSpace.update,
                              ds.AdaptivelyDiscretizedDesignSpace.update,
                              cr.RectangularConfidenceRegion.update, cr.RectangularConfidenceRegion.intersect,
                              cr.RectangularConfidenceRegion.center, cr.EllipsoidalConfidenceRegion.update,
                              uu.hyperrectangle_check_intersection),
        "bounds": {"N": "3 quick / 4 thorough designs", "m": "2 (3 thorough)", "index lists": "None + every subset "
                   "in every order (quick: all of size <=2 plus two of size 3)", "scale": "0-d, (m,), (n,m) and two "
                   "rejected shapes", "update sequences": "<=2 quick / 3 thorough with intersection"},
        "stubs": ["stub posterior: predict(X) returns the symbolic mean/covariance rows of the designs whose inputs "
                  "were asked for (contract: (n,m) and (n,m,m)); validated concretely against the four real model "
                  "classes for n=1,2,3 on every run"],
        "assumptions": ["floats are encoded as exact reals", "scale >= 0, predictive variances > 0",
                        "numerical content of real model predictions is C15 (not claimed)"],
        "explanation": "real update code on symbolic predictions: region attributes proved equal (z3) to "
                       "mean ± scale·sqrt(var) / (mean, cov, scale); intersection semantics by one-step induction",
    }
