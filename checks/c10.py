"""C10 — 'is covered' decides ∃z∈R1 ∃z'∈R2 : z' dominates z by the slack (rectangles: slack in
objective space; ellipsoids: per cone facet).  Real is_covered code on the exact-answer cvxpy
stub (symx.cpshim); ellipsoids through the T = Σ^(-1/2) parametrisation (symx.spd)."""
from __future__ import annotations

from fractions import Fraction

import numpy as np
import z3

from symx import cpshim, lp, sym
from symx.arr import NpProxy, SymArray, symarray
from symx.explore import Explorer, Inconclusive, model_value
from symx.harness import (Wz, cone_set, dotz, frac_json, from_frac_json, make_order, patched,
                          src_info, zand, zor, zs)
from symx.spd import SpdMat, SpProxy, inv_hook, sigma_from_T, spd_T
from symx.sym import HarnessError, Sym

PROPERTY = "C10"
MARGIN = Fraction(1, 1000)


def _mods():
    import vopy.confidence_region as cr
    import vopy.order as vo
    import vopy.ordering_cone as oc
    import vopy.utils.utils as uu
    return cr, uu, vo, oc


# -- oracles (written from the property text) ------------------------------------------------
def rect_oracle(Wq, l1, u1, l2, u2, s, z, zp, margin=None):
    m = len(z)
    mg = sym.rv(0) if margin is None else margin
    return zand([l1[i] <= z[i] for i in range(m)] + [z[i] <= u1[i] for i in range(m)] +
                [l2[i] <= zp[i] for i in range(m)] + [zp[i] <= u2[i] for i in range(m)] +
                [dotz(row, [zp[i] - z[i] - s[i] for i in range(m)]) >= mg for row in Wq])


def ell_member(T, c, alpha, z):
    m = len(z)
    d = [z[i] - c[i] for i in range(m)]
    Td = [sum((T[i][j] * d[j] for j in range(m)), sym.rv(0)) for i in range(m)]
    return sum((t * t for t in Td), sym.rv(0)) <= alpha * alpha


def ell_oracle(Wq, T1, c1, a1, T2, c2, a2, s, x, y):
    m = len(x)
    return z3.And(ell_member(T1, c1, a1, x), ell_member(T2, c2, a2, y),
                  zand([dotz(Wq[n], [y[i] - x[i] for i in range(m)]) >= s[n] for n in range(len(Wq))]))


# ------------------------------------------------------------------------------------------
def rect_task(cone, W, slack_kind, tier):
    cr, uu, vo, oc = _mods()
    symbolic_W = W is None
    if symbolic_W:
        K = m = 2
    else:
        W = np.asarray(W, dtype=float)
        K, m = W.shape
        order = make_order(W)
        Wq = Wz(W)
    proxy = NpProxy()
    ex = Explorer(f"rect_is_covered[{cone},{slack_kind}]", query_timeout_ms=120000)

    def body(ctx):
        nonlocal_W = None
        if symbolic_W:
            Ws = ctx.reals("w", K, m)
            order_ = make_order(Ws)
            Wq_ = zs(Ws)
        else:
            order_, Wq_ = order, Wq
        return _rect_body(ctx, order_, Wq_)

    def _rect_body(ctx, order, Wq):
        l1, u1, l2, u2 = (ctx.reals(n, m) for n in ("l1", "u1", "l2", "u2"))
        ctx.assume([l1 <= u1, l2 <= u2])
        if slack_kind == "scalar":
            s = ctx.real("s")
            sv = [s.e] * m
        elif slack_kind == "zero":
            s, sv = np.array(0.0), [sym.rv(0)] * m
        else:
            s = ctx.reals("s", m)
            sv = zs(s)
        R1 = cr.RectangularConfidenceRegion(m, l1, u1)
        R2 = cr.RectangularConfidenceRegion(m, l2, u2)
        ret = cr.confidence_region_is_covered(order, R1, R2, s)
        if not isinstance(ret, (bool, np.bool_)):
            raise HarnessError(f"is_covered returned {type(ret)}")
        ret = bool(ret)
        probs = cpshim.problems(ctx)
        if len(probs) != 1:
            raise HarnessError(f"{len(probs)} cvxpy problems solved, expected 1")
        p = probs[0]
        ctx.witness(p["outcome"])
        L1, U1, L2, U2 = zs(l1), zs(u1), zs(l2), zs(u2)
        data = (cone, W, L1, U1, L2, U2, sv)
        if p["outcome"] == "feasible":
            w = p["witness"]
            if len(w) != 2 * m:
                raise HarnessError("unexpected number of LP variables")
            a, b = w[:m], w[m:]
            claim = z3.And(z3.BoolVal(ret),
                           z3.Or(rect_oracle(Wq, L1, U1, L2, U2, sv, a, b),
                                 rect_oracle(Wq, L1, U1, L2, U2, sv, b, a)))
            mdl = ctx.prove("program feasible ⇒ returns True ∧ ∃z∃z' (oracle) at the witness", claim)
            if mdl is not None:
                if symbolic_W:
                    ex.inconclusive.append("stage-1 obligation refuted for the symbolic cone (no stage 2 there)")
                    return
                _stage2(ex, ctx, p, "feasible", ret, data, Wq)
                return
        else:
            z = [ctx.fresh("oz") for _ in range(m)]
            zp = [ctx.fresh("ozp") for _ in range(m)]
            u = p["universal"]
            ctx.fact([u.at(z + zp), u.at(zp + z)])
            claim = z3.And(z3.BoolVal(not ret), z3.Not(rect_oracle(Wq, L1, U1, L2, U2, sv, z, zp)))
            mdl = ctx.prove("program infeasible ⇒ returns False ∧ no oracle witness exists", claim)
            if mdl is not None:
                if symbolic_W:
                    ex.inconclusive.append("stage-1 obligation refuted for the symbolic cone (no stage 2 there)")
                    return
                _stage2(ex, ctx, p, "infeasible", ret, data, Wq)
                return
        ctx.sample({"cone": cone, "slack": slack_kind, "outcome": p["outcome"], "ret": ret,
                    "program": str(z3.simplify(p["constraints"]))[:300]})

    with patched((cr, {"np": proxy, "cp": cpshim.CpShim}), (uu, {"np": proxy}), (vo, {"np": proxy}),
                 (oc, {"np": proxy})):
        ex.run(body)
    ex.finalize(replay)
    r = ex.result()
    for lab in ("feasible", "infeasible"):
        if not ex.witnessed.get(lab):
            r["inconclusive"].append(f"vacuity: outcome {lab} never reached")
    r["config"] = {"cone": cone, "m": m, "K": K, "slack": slack_kind, "region": "rect"}
    r["concrete_validations"] = 0 if symbolic_W else _validate_rect(W, 25 if tier == "quick" else 100, r)
    return r


def _stage2(ex, ctx, p, outcome, ret, data, Wq):
    """exact disagreement query with existential certificates on both sides (a stage-1 model may
    only mean that the identity instantiation was too weak): returned value vs. oracle truth.
    ret=True  ∧ oracle LP infeasible (Farkas)   or   ret=False ∧ oracle LP feasible with margin."""
    cone, W, L1, U1, L2, U2, sv = data
    m = len(L1)
    z = [ctx.fresh("s2z") for _ in range(m)]
    zp = [ctx.fresh("s2zp") for _ in range(m)]
    queries = []
    if ret:
        # cheap sufficient certificate first (linear, W concrete): one facet separates the difference box
        # D = [l2 − u1 − s, u2 − l1 − s] from the cone, max_{d∈D} w_k·d ≤ −margin
        Wc = np.asarray(W, dtype=float)
        sep = []
        for k in range(Wc.shape[0]):
            tot = sym.rv(0)
            for j in range(m):
                hi, lo = U2[j] - L1[j] - sv[j], L2[j] - U1[j] - sv[j]
                tot = tot + sym.rv(Wc[k, j]) * (hi if Wc[k, j] > 0 else lo)
            sep.append(tot <= -sym.rv(MARGIN))
        queries.append(("returns True but one facet separates every (z, z') from the cone", zor(sep)))
        atoms = lp.linear_atoms(rect_oracle(Wq, L1, U1, L2, U2, sv, z, zp), z + zp)
        cert, _ = lp.farkas_infeasible(atoms, ctx.fresh, margin=MARGIN)
        queries.append(("returns True but no (z, z') exists [Farkas certificate]", cert))
    else:
        queries.append(("returns False but a covering pair exists with margin",
                        rect_oracle(Wq, L1, U1, L2, U2, sv, z, zp, margin=sym.rv(MARGIN))))
    # on the infeasible branch the code's program must be *truly* infeasible for the model to be
    # a real counterexample: certify that too
    extra = []
    if outcome == "infeasible":
        atoms = lp.linear_atoms(p["constraints"], p["vars"])
        try:
            cert, _ = lp.farkas_infeasible(atoms, ctx.fresh, margin=MARGIN)
            extra.append(cert)
        except HarnessError:
            pass
    bound = zand([z3.And(v >= -64, v <= 64) for v in L1 + U1 + L2 + U2 + sv if not z3.is_rational_value(v)])
    for name, q in queries:
        try:
            mdl = ctx.satisfiable([q, bound] + extra, timeout_ms=120000)
        except Inconclusive:
            mdl = None
            ex.inconclusive.append(f"stage 2 ({name}) unknown")
        if mdl is not None:
            vals = {k: [model_value(mdl, e) for e in v] for k, v in
                    (("l1", L1), ("u1", U1), ("l2", L2), ("u2", U2), ("s", sv))}
            ex.candidate(name, {"kind": "rect", "cone": cone, "W": np.asarray(W).tolist(),
                                **{k: frac_json(v) for k, v in vals.items()}},
                         {"region": "rect", "cone": cone, "branch": outcome, "returned": ret})
            return
    # stage 1 failed but no exact disagreement exists / was found
    ex.inconclusive.append(f"stage-1 obligation refuted on the {outcome} branch (ret={ret}) but the exact "
                           f"disagreement query found no counterexample")


def _rect_rows(W, l1, u1, l2, u2, s, margin=Fraction(0)):
    """oracle LP on concrete rationals: variables (z, z')"""
    m = len(l1)
    rows = []
    for i in range(m):
        e = [Fraction(0)] * (2 * m); e[i] = Fraction(1); rows.append((e, -l1[i]))
        e = [Fraction(0)] * (2 * m); e[i] = Fraction(-1); rows.append((e, u1[i]))
        e = [Fraction(0)] * (2 * m); e[m + i] = Fraction(1); rows.append((e, -l2[i]))
        e = [Fraction(0)] * (2 * m); e[m + i] = Fraction(-1); rows.append((e, u2[i]))
    for row in np.asarray(W, dtype=float):
        wq = [Fraction(float(w)) for w in row]
        co = [-w for w in wq] + wq
        rows.append((co, -sum(w * si for w, si in zip(wq, s)) - margin))
    return rows


def replay(case):
    cr, uu, vo, oc = _mods()
    if case["kind"] == "ell":
        return _replay_ell(case)
    W = np.array(case["W"], dtype=float)
    g = lambda k: [Fraction(x) for x in from_frac_json(case[k])]  # noqa
    f = lambda v: np.array([float(x) for x in v])  # noqa
    fl = {k: f(g(k)) for k in ("l1", "u1", "l2", "u2", "s")}
    exq = {k: [Fraction(float(x)) for x in v] for k, v in fl.items()}
    order = make_order(W)
    R1 = cr.RectangularConfidenceRegion(len(fl["l1"]), fl["l1"], fl["u1"])
    R2 = cr.RectangularConfidenceRegion(len(fl["l1"]), fl["l2"], fl["u2"])
    try:
        code = bool(cr.confidence_region_is_covered(order, R1, R2, fl["s"]))
    except Exception as ex:  # noqa
        return {"reproduced": True, "detail": "real is_covered raised " + repr(ex)}
    tol = Fraction(1, 10**6)
    surely = lp.exact_lp_feasible(_rect_rows(W, exq["l1"], exq["u1"], exq["l2"], exq["u2"], exq["s"], tol))
    possibly = lp.exact_lp_feasible(_rect_rows(W, exq["l1"], exq["u1"], exq["l2"], exq["u2"], exq["s"], -tol))
    if surely != possibly:
        return {"reproduced": False, "detail": "configuration within 1e-6 of the boundary"}
    return {"reproduced": code != surely, "code": code, "oracle": surely,
            "detail": f"real is_covered={code}, exact LP oracle={surely}"}


def _validate_rect(W, n, r):
    cr, uu, vo, oc = _mods()
    rng = np.random.RandomState(3)
    order = make_order(W)
    m = W.shape[1]
    ok = 0
    for _ in range(n):
        case = {"kind": "rect", "W": W.tolist()}
        l1 = np.round(rng.uniform(-2, 2, m) * 16) / 16
        l2 = np.round(rng.uniform(-2, 2, m) * 16) / 16
        vals = {"l1": l1, "u1": l1 + np.round(rng.uniform(0, 1, m) * 16) / 16, "l2": l2,
                "u2": l2 + np.round(rng.uniform(0, 1, m) * 16) / 16,
                "s": np.round(rng.uniform(-1, 1, m) * 16) / 16}
        case.update({k: frac_json([Fraction(float(x)) for x in v]) for k, v in vals.items()})
        rep = replay(case)
        if rep["reproduced"]:
            r["violations"].append({"obligation": "concrete validation: real code vs exact oracle", "case": case,
                                    "reproduced": True, "replay_detail": rep["detail"],
                                    "features": {"region": "rect", "source": "concrete_validation"}})
        else:
            ok += 1
    return ok


# ------------------------------------------------------------------------------------------
def ell_task(cone, W, slack_kind, tier):
    cr, uu, vo, oc = _mods()
    W = np.asarray(W, dtype=float)
    K, m = W.shape
    order = make_order(W)
    Wq = Wz(W)
    pre = {"violations": []}
    nval = _validate_ell(W, 10 if tier == "quick" else 40, pre)
    ex = Explorer(f"ell_is_covered[{cone},{slack_kind}]", query_timeout_ms=15000 if pre["violations"] else 90000)

    def body(ctx):
        proxy = NpProxy(hooks={"inv": inv_hook})
        c1, c2 = ctx.reals("c1", m), ctx.reals("c2", m)
        T1, T2 = spd_T(ctx, "T1", m), spd_T(ctx, "T2", m)
        a1, a2 = ctx.real("alpha1"), ctx.real("alpha2")
        ctx.assume([a1 > 0, a2 > 0])
        if slack_kind == "scalar":
            s = ctx.real("s")
            sv = [s.e] * K
        else:
            s = ctx.reals("s", K)
            sv = zs(s)
        with patched((cr, {"np": proxy, "cp": cpshim.CpShim, "sp": SpProxy()}), (uu, {"np": proxy}),
                     (vo, {"np": proxy}), (oc, {"np": proxy})):
            R1 = cr.EllipsoidalConfidenceRegion(m, c1, SpdMat(T1, -2), a1)
            R2 = cr.EllipsoidalConfidenceRegion(m, c2, SpdMat(T2, -2), a2)
            ret = cr.confidence_region_is_covered(order, R1, R2, s)
        if not isinstance(ret, (bool, np.bool_)):
            raise HarnessError(f"is_covered returned {type(ret)}")
        ret = bool(ret)
        probs = cpshim.problems(ctx)
        if len(probs) != 1:
            raise HarnessError(f"{len(probs)} cvxpy problems solved, expected 1")
        p = probs[0]
        ctx.witness(p["outcome"])
        T1z, T2z, c1z, c2z = zs(T1), zs(T2), zs(c1), zs(c2)
        orc = lambda x, y: ell_oracle(Wq, T1z, c1z, a1.e, T2z, c2z, a2.e, sv, x, y)  # noqa
        if p["outcome"] == "feasible":
            w = p["witness"]
            a, b = w[:m], w[m:]
            claim = z3.And(z3.BoolVal(ret), z3.Or(orc(a, b), orc(b, a)))
            name = "program feasible ⇒ returns True ∧ ∃x∃y (oracle) at the witness"
        else:
            x = [ctx.fresh("ox") for _ in range(m)]
            y = [ctx.fresh("oy") for _ in range(m)]
            u = p["universal"]
            ctx.fact([u.at(x + y), u.at(y + x)])
            claim = z3.And(z3.BoolVal(not ret), z3.Not(orc(x, y)))
            name = "program infeasible ⇒ returns False ∧ no oracle witness exists"
        mdl = ctx.prove(name, claim)
        if mdl is not None:
            # candidate models, steered towards small regions so that feasibility is decided near
            # the centres (a stage-1 model need not be a true disagreement)
            tried = 0
            wellc = []
            for Tz in (T1z, T2z):
                for i_ in range(m):
                    for j_ in range(m):
                        wellc.append(z3.And(Tz[i_][j_] >= Fraction(1, 2), Tz[i_][j_] <= 2) if i_ == j_ else
                                     z3.And(Tz[i_][j_] >= Fraction(-1, 4), Tz[i_][j_] <= Fraction(1, 4)))
            wellc += [z3.And(c >= -4, c <= 4) for c in c1z + c2z] + [a1.e <= 1, a2.e <= 1, a1.e >= Fraction(1, 100),
                                                                    a2.e >= Fraction(1, 100)]
            for extra in (wellc + [a1.e <= Fraction(1, 20), a2.e <= Fraction(1, 20)], wellc, []):
                try:
                    m2 = ctx.satisfiable([z3.Not(claim)] + [sym.sbool(e) if not isinstance(e, z3.BoolRef) else e
                                                          for e in extra], timeout_ms=ex.query_timeout_ms // 3)
                except Inconclusive:
                    m2 = None
                if m2 is None:
                    continue
                tried += 1
                ex.candidate(name, _ell_case(m2, cone, W, T1z, c1z, a1.e, T2z, c2z, a2.e, sv),
                             {"region": "ell", "cone": cone, "branch": p["outcome"], "returned": ret}, limit=6)
            return
        ctx.sample({"cone": cone, "slack": slack_kind, "outcome": p["outcome"], "ret": ret})

    ex.run(body)
    ex.finalize(replay)
    # several candidate models per failing path: one reproducing model is a violation; the
    # non-reproducing siblings are dropped (they only reflect weak instantiation)
    if any(v.get("reproduced") for v in ex.violations):
        ex.violations = [v for v in ex.violations if v.get("reproduced")]
    r = ex.result()
    for lab in ("feasible", "infeasible"):
        if not ex.witnessed.get(lab):
            r["inconclusive"].append(f"vacuity: outcome {lab} never reached")
    r["config"] = {"cone": cone, "m": m, "K": K, "slack": slack_kind, "region": "ellipsoid"}
    r["concrete_validations"] = nval
    r["violations"].extend(pre["violations"])
    return r


def _ell_case(mdl, cone, W, T1z, c1z, a1, T2z, c2z, a2, sv):
    mv = lambda e: model_value(mdl, e)  # noqa
    return {"kind": "ell", "cone": cone, "W": np.asarray(W).tolist(),
            "T1": frac_json([[mv(e) for e in row] for row in T1z]), "c1": frac_json([mv(e) for e in c1z]),
            "a1": frac_json(mv(a1)), "T2": frac_json([[mv(e) for e in row] for row in T2z]),
            "c2": frac_json([mv(e) for e in c2z]), "a2": frac_json(mv(a2)),
            "s": frac_json([mv(e) for e in sv])}


def ell_numeric_oracle(W, S1, c1, a1, S2, c2, a2, s, margin):
    """independent formulation (quad_form over Σ⁻¹) solved with real cvxpy; margin > 0 shrinks the
    feasible set (surely covered), margin < 0 enlarges it (possibly covered)"""
    import cvxpy as cp
    m = len(c1)
    x, y = cp.Variable(m), cp.Variable(m)
    P1, P2 = np.linalg.inv(S1), np.linalg.inv(S2)
    P1, P2 = (P1 + P1.T) / 2, (P2 + P2.T) / 2
    cons = [cp.quad_form(x - c1, cp.psd_wrap(P1)) <= a1 ** 2 * (1 - margin),
            cp.quad_form(y - c2, cp.psd_wrap(P2)) <= a2 ** 2 * (1 - margin),
            W @ (y - x) >= s + margin * (1 + np.abs(s))]
    prob = cp.Problem(cp.Minimize(0), cons)
    try:
        prob.solve()
    except cp.error.SolverError:
        prob.solve(solver=cp.SCS)
    return prob.status in ("optimal", "optimal_inaccurate")


def _replay_ell(case):
    cr, uu, vo, oc = _mods()
    W = np.array(case["W"], dtype=float)
    F = lambda a: np.array([[float(Fraction(v)) for v in row] for row in from_frac_json(a)])  # noqa
    F1 = lambda a: np.array([float(Fraction(v)) for v in from_frac_json(a)])  # noqa
    S1, S2 = sigma_from_T(F(case["T1"])), sigma_from_T(F(case["T2"]))
    c1, c2, s = F1(case["c1"]), F1(case["c2"]), F1(case["s"])
    a1, a2 = float(Fraction(from_frac_json(case["a1"]))), float(Fraction(from_frac_json(case["a2"])))
    if max(np.linalg.cond(S1), np.linalg.cond(S2)) > 1e8:
        return {"reproduced": False, "detail": "ill-conditioned Σ (outside the claim)"}
    order = make_order(W)
    R1 = cr.EllipsoidalConfidenceRegion(len(c1), c1, S1, a1)
    R2 = cr.EllipsoidalConfidenceRegion(len(c1), c2, S2, a2)
    sl = s if len(set(s.tolist())) > 1 or len(s) == 1 else s
    try:
        code = bool(cr.confidence_region_is_covered(order, R1, R2, sl))
    except Exception as ex:  # noqa
        return {"reproduced": True, "detail": "real is_covered raised " + repr(ex)}
    surely = ell_numeric_oracle(W, S1, c1, a1, S2, c2, a2, s, 1e-4)
    possibly = ell_numeric_oracle(W, S1, c1, a1, S2, c2, a2, s, -1e-4)
    if surely != possibly:
        return {"reproduced": False, "detail": "configuration within 1e-4 (relative) of the boundary"}
    return {"reproduced": code != surely, "code": code, "oracle": surely,
            "detail": f"real ellipsoidal is_covered={code}, independent oracle={surely}"}


def _validate_ell(W, n, r):
    rng = np.random.RandomState(4)
    m = W.shape[1]
    K = W.shape[0]
    ok = 0
    for _ in range(n):
        def rT():
            A = rng.uniform(-1, 1, (m, m))
            return A @ A.T + np.eye(m) * 0.5
        case = {"kind": "ell", "W": W.tolist(), "T1": rT().tolist(), "T2": rT().tolist(),
                "c1": rng.uniform(-1, 1, m).tolist(), "c2": rng.uniform(-1, 1, m).tolist(),
                "a1": float(rng.uniform(0.1, 1)), "a2": float(rng.uniform(0.1, 1)),
                "s": rng.uniform(-0.5, 0.5, K).tolist()}
        case = {k: (frac_json([[Fraction(x) for x in row] for row in v]) if k in ("T1", "T2") else
                    frac_json([Fraction(x) for x in v]) if isinstance(v, list) and k != "W" else
                    frac_json(Fraction(v)) if isinstance(v, float) else v) for k, v in case.items()}
        rep = _replay_ell(case)
        if rep["reproduced"]:
            r["violations"].append({"obligation": "concrete validation: real code vs independent oracle", "case": case,
                                    "reproduced": True, "replay_detail": rep["detail"],
                                    "features": {"region": "ell", "source": "concrete_validation"}})
        else:
            ok += 1
    return ok


# ------------------------------------------------------------------------------------------
def status_task(tier):
    """solver statuses other than exact optimal/infeasible are outside the property; the booleans
    the real methods derive from them are recorded (not asserted) by driving the real code with a
    cvxpy facade that reports the given status"""
    cr, uu, vo, oc = _mods()
    rec = []
    order = make_order(np.eye(2))
    for status in ("optimal", "infeasible", "optimal_inaccurate", "infeasible_inaccurate", "unbounded", None):
        class P:
            def __init__(self, *a, **k):
                self.status = None
                self.value = 0.0

            def solve(self, *a, **k):
                self.status = status
        import cvxpy as real_cp
        fake = type("cpf", (), {"Variable": real_cp.Variable, "Minimize": real_cp.Minimize, "Problem": P,
                                "norm": real_cp.norm, "error": real_cp.error, "SCS": real_cp.SCS})
        with patched((cr, {"cp": fake})):
            R1 = cr.RectangularConfidenceRegion(2, np.zeros(2), np.ones(2))
            R2 = cr.RectangularConfidenceRegion(2, np.zeros(2), np.ones(2))
            E1 = cr.EllipsoidalConfidenceRegion(2)
            try:
                rr = bool(cr.confidence_region_is_covered(order, R1, R2, np.array(0.0)))
            except Exception as ex:  # noqa
                rr = repr(ex)
            try:
                re_ = bool(cr.confidence_region_is_covered(order, E1, E1, np.array(0.0)))
            except Exception as ex:  # noqa
                re_ = repr(ex)
        rec.append({"status": status, "rect_returns": rr, "ellipsoid_returns": re_})
    out = {"harness": "status_mapping(recorded)", "paths": len(rec), "transitions": len(rec), "queries": {},
           "solver_s": 0.0, "violations": [], "inconclusive": [], "obligations": {}, "samples": rec[:2],
           "recorded": rec, "concrete_validations": len(rec)}
    exp = {"optimal": True, "infeasible": False}
    for r_ in rec:
        if r_["status"] in exp and (r_["rect_returns"] != exp[r_["status"]] or r_["ellipsoid_returns"] != exp[r_["status"]]):
            out["violations"].append({"obligation": "exact status mapping", "reproduced": True,
                                      "case": {"kind": "status", **r_}, "features": {"status": r_["status"]}})
    return out


def tasks(tier, seed):
    ts = []
    for cone, W in cone_set(tier, seed=seed):
        m = W.shape[1]
        kinds = ["vector", "scalar"] if (tier == "thorough" or m == 2) else ["vector"]
        for sk in kinds:
            ts.append({"id": f"rect[{cone},{sk}]", "fn": "rect_task",
                       "args": {"cone": cone, "W": W.tolist(), "slack_kind": sk, "tier": tier}})
        if tier == "quick" and (m == 3 and cone not in ("orthant3", "icecream_K4")):
            continue
        for sk in (["vector"] if tier == "quick" else ["vector", "scalar"]):
            ts.append({"id": f"ell[{cone},{sk}]", "fn": "ell_task",
                       "args": {"cone": cone, "W": W.tolist(), "slack_kind": sk, "tier": tier}, "weight": 5})
    ts.append({"id": "rect[symbolic 2x2 cone]", "fn": "rect_task",
               "args": {"cone": "symbolic2x2", "W": None, "slack_kind": "vector", "tier": tier}})
    ts.append({"id": "status_mapping", "fn": "status_task", "args": {"tier": tier}})
    return ts


def meta(tier):
    cr, uu, vo, oc = _mods()
    return {
        "level": "model_checking",
        "functions": src_info(cr.confidence_region_is_covered, cr.RectangularConfidenceRegion.is_covered,
                              cr.EllipsoidalConfidenceRegion.is_covered, uu.hyperrectangle_get_region_matrix),
        "bounds": {"m": "2..3", "K": "<=6", "cones": [c for c, _ in cone_set(tier)]},
        "stubs": ["cvxpy: exact-answer stub (symx.cpshim): feasibility fork with Skolem witness / universal "
                  "infeasibility fact instantiated at the oracle's witness (both variable orders)",
                  "scipy.linalg.sqrtm, np.linalg.inv: Σ = T^-2 with T symmetric positive definite"],
        "assumptions": ["floats are encoded as exact reals", "exact solver statuses; *_inaccurate, solver "
                        "exceptions and the SCS fallback are outside (recorded only)",
                        "radii alpha > 0"],
        "outside": ["whether ECOS/Clarabel solve 1e-4-sized problems accurately (numerical)"],
        "explanation": "two-stage decision: stage 1 proves, on every path of the real is_covered code, that the "
                       "program it built is feasible exactly when the oracle's ∃∃ statement holds (witness "
                       "instantiation, QF); stage 2 (only after a stage-1 refutation) asks the exact disagreement "
                       "query with Farkas certificates and replays the model on the real code with real cvxpy",
    }
