"""C12 — cone orders are their cones' preorders; bundled cones have the stated geometry."""
from __future__ import annotations

import itertools
import math
from fractions import Fraction

import numpy as np
import z3

from symx import sym
from symx.arr import NpProxy, SymArray, symarray
from symx.explore import Explorer, model_value
from symx.harness import (Wz, cone_set, dotz, frac_json, from_frac_json, make_order, patched,
                          src_info, zand, zor, zs)
from symx.sym import HarnessError, Sym, SymBool

PROPERTY = "C12"


def _mods():
    import vopy.order as vo
    import vopy.ordering_cone as oc
    import vopy.utils.utils as uu
    return vo, oc, uu


def _sb(r):
    """single SymBool / bool out of dominates()' (1,) result without forking"""
    if isinstance(r, np.ndarray):
        if r.size != 1:
            raise HarnessError("expected one boolean")
        r = r.view(np.ndarray).ravel()[0]
    return sym.sbool(r)


# ------------------------------------------------------------------------------------------
def laws_task(cone, W, tier, symbolic_W=False, m=None, K=None, int_W=False):
    vo, oc, uu = _mods()
    proxy = NpProxy()
    ex = Explorer(f"order_laws[{cone}]", query_timeout_ms=120000)
    if not symbolic_W:
        # int_W: the cone matrix is given with an integer dtype (as in the class docstring)
        W = np.asarray(W, dtype=int if int_W else float)
        K, m = W.shape

    def body(ctx):
        if symbolic_W:
            Ws = ctx.reals("w", K, m)
            order = make_order(Ws)
            Wq = zs(Ws)
        else:
            order = make_order(W)
            Wq = Wz(W)
        a, b, c, t = (ctx.reals(n, m) for n in "abct")
        lam = ctx.real("lam")
        ctx.assume(lam > 0)
        az, bz, cz = zs(a), zs(b), zs(c)
        facet = lambda x, y: zand([dotz(row, [x[i] - y[i] for i in range(m)]) >= 0 for row in Wq])  # noqa
        dab = _sb(order.dominates(a, b))
        dbc = _sb(order.dominates(b, c))
        dac = _sb(order.dominates(a, c))
        dba = _sb(order.dominates(b, a))
        claims = {
            "dominates⇔facets": dab == facet(az, bz),
            "reflexive": _sb(order.dominates(a, a)),
            "transitive": z3.Implies(z3.And(dab, dbc), dac),
            "translation": _sb(order.dominates(a + t, b + t)) == dab,
            "scaling": _sb(order.dominates(lam * a, lam * b)) == dab,
        }
        # list input goes through the `not isinstance(x, np.ndarray)` branch of is_inside
        lst = [a.view(np.ndarray)[i] - b.view(np.ndarray)[i] for i in range(m)]
        claims["list_input"] = _sb(order.ordering_cone.is_inside(lst)) == dab
        if not symbolic_W and np.linalg.matrix_rank(W) == m:
            claims["antisymmetric(pointed)"] = z3.Implies(z3.And(dab, dba),
                                                          zand([az[i] == bz[i] for i in range(m)]))
        # batched call = per-row single calls
        A = symarray(np.vstack([a.view(np.ndarray), b.view(np.ndarray), c.view(np.ndarray)]))
        B = symarray(np.vstack([b.view(np.ndarray), c.view(np.ndarray), a.view(np.ndarray)]))
        rb = order.dominates(A, B)
        if not (isinstance(rb, np.ndarray) and rb.shape == (3,)):
            raise HarnessError(f"batched dominates returned shape {getattr(rb, 'shape', None)}")
        rbv = [sym.sbool(x) for x in rb.view(np.ndarray)]
        dca = _sb(order.dominates(c, a))
        claims["batched=rows"] = z3.And(rbv[0] == dab, rbv[1] == dbc, rbv[2] == dca)
        # the forking use (`if order.dominates(...)`) must agree with the merged value
        taken = bool(order.dominates(a, b))
        ctx.witness(str(taken))
        claims["branch=value"] = dab if taken else z3.Not(dab)
        for name, cl in claims.items():
            mdl = ctx.prove(name, cl)
            if mdl is not None:
                vals = {k: [model_value(mdl, e) for e in v] for k, v in
                        (("a", az), ("b", bz), ("c", cz), ("t", zs(t)))}
                vals["lam"] = model_value(mdl, lam.e)
                Wc = [[model_value(mdl, e) for e in row] for row in Wq]
                ex.candidate(name, {"kind": "law", "law": name, "W": frac_json(Wc), "int_W": bool(int_W),
                                    **{k: frac_json(v) for k, v in vals.items()}},
                             {"cone": cone, "law": name})
                return
        ctx.sample({"cone": cone, "branch": taken, "laws_proved": list(claims)})

    with patched((vo, {"np": proxy}), (oc, {"np": proxy})):
        ex.run(body)
    ex.finalize(replay)
    r = ex.result()
    for lab in ("True", "False"):
        if not ex.witnessed.get(lab):
            r["inconclusive"].append(f"vacuity: branch {lab} unreachable")
    r["config"] = {"cone": cone, "symbolic_W": symbolic_W, "m": m, "K": K}
    return r


def replay(case):
    vo, oc, uu = _mods()
    F = lambda v: [Fraction(x) for x in from_frac_json(v)]  # noqa
    if case["kind"] == "law":
        W = np.array([[float(Fraction(x)) for x in row] for row in from_frac_json(case["W"])])
        if case.get("int_W"):
            W = W.astype(int)
        Wex = [[Fraction(float(x)) for x in row] for row in W]
        order = make_order(W)
        a, b, c, t = (np.array([float(x) for x in F(case[k])]) for k in "abct")
        lam = float(Fraction(from_frac_json(case["lam"])))
        exact = lambda x, y: all(sum(w * (Fraction(float(p)) - Fraction(float(q)))  # noqa
                                     for w, p, q in zip(row, x, y)) >= 0 for row in Wex)
        d = lambda x, y: bool(order.dominates(x, y))  # noqa
        law = case["law"]
        bad = False
        if law in ("dominates⇔facets", "branch=value", "list_input"):
            bad = d(a, b) != exact(a, b) or bool(order.ordering_cone.is_inside(list(a - b))) != exact(a, b)
        elif law == "reflexive":
            bad = not d(a, a)
        elif law == "transitive":
            bad = d(a, b) and d(b, c) and not d(a, c)
        elif law == "translation":
            bad = d(a + t, b + t) != d(a, b)
        elif law == "scaling":
            bad = d(lam * a, lam * b) != d(a, b)
        elif law.startswith("antisymmetric"):
            bad = d(a, b) and d(b, a) and not np.array_equal(a, b)
        elif law == "batched=rows":
            rb = order.dominates(np.vstack([a, b, c]), np.vstack([b, c, a]))
            bad = list(map(bool, rb)) != [d(a, b), d(b, c), d(c, a)]
        return {"reproduced": bool(bad), "detail": f"law {law} on real code: violated={bool(bad)}"}
    if case["kind"] == "theta":
        return _replay_theta(case)
    if case["kind"] == "tie":
        stub_alpha = {"get_alpha_vec": lambda W: np.ones((W.shape[0], 1))}
        with patched((oc, stub_alpha)):
            orders = {f"ConeOrder3D({t})": (lambda t=t: vo.ConeOrder3D(t)) for t in ("acute", "obtuse", "right")}
            orders["0.1·[[1,-2,4],[4,1,-2],[-2,4,1]]"] = lambda: vo.PolyhedralConeOrder(oc.OrderingCone(0.1 * np.array([[1, -2, 4], [4, 1, -2], [-2, 4, 1.0]])))
            orders["0.3·[[2,-1],[-1,3]]"] = lambda: vo.PolyhedralConeOrder(oc.OrderingCone(0.3 * np.array([[2, -1], [-1, 3.0]])))
            orders["ComponentwiseOrder(3)"] = lambda: vo.ComponentwiseOrder(3)
            order = orders[case["cone"]]()
        a, b = np.array(case["a"], dtype=float), np.array(case["b"], dtype=float)
        Wx = [[Fraction(float(v)) for v in row] for row in np.asarray(order.ordering_cone.W, dtype=float)]
        exact = all(sum(w * (Fraction(float(p)) - Fraction(float(q))) for w, p, q in zip(row, a, b)) >= 0 for row in Wx)
        got = bool(np.asarray(order.dominates(a[None, :], b[None, :]) if case.get("mode") == "batched" else order.dominates(a, b)).all())
        return {"reproduced": bool(got != exact), "detail": f"dominates({a.tolist()}, {b.tolist()}) = {got}; exact facet test of a − b on the "
                f"cone's own (binary64) matrix: {exact}"}
    if case["kind"] == "concrete":
        return {"reproduced": True, "detail": case.get("detail", "concrete exact computation on the real "
                                                         "constructor's output")}
    return {"reproduced": False, "detail": "unknown kind"}


# ------------------------------------------------------------------------------------------
# θ-cone: all θ ∈ (0°,180°) at once through the (c, s) = (cos θ/2, sin θ/2) parametrisation
PI = Fraction(math.pi)


def theta_symbolic_task(tier):
    vo, oc, uu = _mods()
    ex = Explorer("get_2d_w[symbolic θ]", query_timeout_ms=180000)

    def body(ctx):
        deg = ctx.real("deg")
        c, s = ctx.real("cos_half"), ctx.real("sin_half")
        ctx.assume([deg > 0, deg < 180, deg != 90])
        # trusted trigonometry (listed in evidence): unit circle, first quadrant, monotonicity
        ctx.fact([c.e * c.e + s.e * s.e == 1, c.e > 0, s.e > 0,
                  (deg.e <= 90) == (s.e <= c.e), (deg.e == 90) == (s.e == c.e)])

        def tan(x):
            e = sym.to_z3(x)
            a0 = z3.simplify(z3.substitute(e, (deg.e, z3.RealVal(0))))
            a1 = z3.simplify(z3.substitute(e, (deg.e, z3.RealVal(1))) - a0)
            v0, v1 = sym.const_value(a0), sym.const_value(a1)
            if v0 is None or v1 is None or abs(v0 - PI / 4) > Fraction(1, 10**15) or \
                    abs(abs(v1) - PI / 360) > Fraction(1, 10**17):
                raise HarnessError(f"tan argument not of the form pi/4 ± theta/2: {e}")
            ctx.note("tan(pi/4-+h)=(c-+s)/(c+-s)")
            return (c - s) / (c + s) if v1 < 0 else (c + s) / (c - s)

        proxy = NpProxy(hooks={"tan": tan})
        with patched((uu, {"np": proxy})):
            W = uu.get_2d_w(deg)
        acute = bool(deg <= 90)
        ctx.witness("acute" if acute else "obtuse")
        Wq = zs(W)
        if len(Wq) != 2 or len(Wq[0]) != 2:
            raise HarnessError("W is not 2x2")
        claims = {"rows_unit": z3.And(*[row[0] * row[0] + row[1] * row[1] == 1 for row in Wq])}
        x, y = ctx.fresh("x"), ctx.fresh("y")
        with patched((oc, {"np": NpProxy(), "get_alpha_vec": lambda W: np.ones((2, 1))})):
            cone = oc.OrderingCone(W)
            inside = _sb(cone.is_inside(symarray([Sym(x), Sym(y)])))
        spec = z3.And(x + y >= 0, (x + y) * (x + y) >= 2 * c.e * c.e * (x * x + y * y))
        claims["inside⇒within θ/2 of diagonal"] = z3.Implies(inside, spec)
        claims["within θ/2 of diagonal⇒inside"] = z3.Implies(spec, inside)
        for name, cl in claims.items():
            mdl = ctx.prove(name, cl)
            if mdl is not None:
                ex.candidate(name, {"kind": "theta", "deg": frac_json(model_value(mdl, deg.e)),
                                    "x": frac_json(model_value(mdl, x)), "y": frac_json(model_value(mdl, y)),
                                    "claim": name}, {"claim": name, "branch": "acute" if acute else "obtuse"})
                return
        ctx.sample({"branch": "acute" if acute else "obtuse", "W": [str(z3.simplify(e))[:80] for e in Wq[0]]})

    ex.run(body)
    ex.finalize(replay)
    r = ex.result()
    for lab in ("acute", "obtuse"):
        if not ex.witnessed.get(lab):
            r["inconclusive"].append(f"vacuity: branch {lab} unreachable")
    r["config"] = {"theta": "symbolic in (0,180)\\{90}"}
    return r


def _replay_theta(case):
    """model's θ (degrees) and direction through the real ConeTheta2D; the angle test is computed
    with mpmath at 50 digits and a 1e-9 rad band"""
    import mpmath as mp
    vo, oc, uu = _mods()
    mp.mp.dps = 50
    deg = float(Fraction(from_frac_json(case["deg"])))
    x = float(Fraction(from_frac_json(case["x"])))
    y = float(Fraction(from_frac_json(case["y"])))
    W = uu.get_2d_w(deg)
    inside = bool(np.all(W @ np.array([x, y]) >= 0))
    nrm = mp.sqrt(mp.mpf(x) ** 2 + mp.mpf(y) ** 2)
    if nrm == 0:
        return {"reproduced": not inside, "detail": "origin must be inside"}
    ang = mp.acos(max(-1, min(1, (mp.mpf(x) + mp.mpf(y)) / (mp.sqrt(2) * nrm))))
    half = mp.mpf(deg) * mp.pi / 360
    rows_unit = np.allclose(np.linalg.norm(W, axis=1), 1, atol=1e-12)
    if not rows_unit:
        return {"reproduced": True, "detail": f"rows of get_2d_w({deg}) not unit"}
    if abs(ang - half) < mp.mpf("1e-9"):
        return {"reproduced": False, "detail": "direction within 1e-9 rad of the cone boundary"}
    want = ang < half
    return {"reproduced": inside != want, "detail": f"get_2d_w({deg}): is_inside(({x},{y}))={inside}, "
            f"angle to diagonal={float(ang):.6f} rad, θ/2={float(half):.6f} rad"}


def theta_grid_task(theta, tier):
    """concrete θ: W = exact rationals of the floats get_2d_w returns; cos(θ/2) enclosed by
    mpmath rationals for θ ± 1e-9°; the direction is symbolic (NRA over x, y)"""
    import mpmath as mp
    vo, oc, uu = _mods()
    mp.mp.dps = 40
    W = uu.get_2d_w(theta)
    tol = mp.mpf("1e-9")
    c_in = Fraction(str(mp.cos((mp.mpf(theta) - tol) * mp.pi / 360)))   # slightly narrower cone
    c_out = Fraction(str(mp.cos((mp.mpf(theta) + tol) * mp.pi / 360)))  # slightly wider cone
    ex = Explorer(f"theta_cone[{theta}]", query_timeout_ms=60000)

    def body(ctx):
        x, y = ctx.real("x"), ctx.real("y")
        with patched((oc, {"np": NpProxy(), "get_alpha_vec": lambda W: np.ones((2, 1))})):
            cone = oc.ConeTheta2D(theta)
            if not np.array_equal(cone.W, W):
                raise HarnessError("ConeTheta2D.W differs from get_2d_w")
            inside = _sb(cone.is_inside(symarray([x, y])))
        ctx.witness("any")
        s_ = x.e + y.e
        n2 = x.e * x.e + y.e * y.e
        narrower = z3.And(s_ >= 0, s_ * s_ >= 2 * sym.rv(c_in) * sym.rv(c_in) * n2)
        wider = z3.And(s_ >= 0, s_ * s_ >= 2 * sym.rv(c_out) * sym.rv(c_out) * n2)
        Wex = Wz(W)
        unit = all(abs(sum(Fraction(float(v)) ** 2 for v in row) - 1) < Fraction(1, 10**12) for row in W)
        for name, cl in (("rows_unit(1e-12)", z3.BoolVal(unit)),
                         ("inside⇒angle≤θ/2+tol", z3.Implies(inside, wider)),
                         ("angle≤θ/2−tol⇒inside", z3.Implies(narrower, inside))):
            mdl = ctx.prove(name, cl)
            if mdl is not None:
                ex.candidate(name, {"kind": "theta", "deg": theta, "x": frac_json(model_value(mdl, x.e)),
                                    "y": frac_json(model_value(mdl, y.e)), "claim": name},
                             {"claim": name, "theta": theta})
                return
        ctx.sample({"theta": theta, "W": W.tolist()})

    ex.run(body)
    ex.finalize(replay)
    r = ex.result()
    r["config"] = {"theta": theta}
    return r


# ------------------------------------------------------------------------------------------
def cones3d_task(tier):
    """3-D bundled cones: unit facet normals, diagonal inside, acute ⊂ orthant ⊂ obtuse as sets
    (∀x, LRA on the real is_inside), acute/obtuse by the sign of pairwise facet-normal products;
    componentwise order = non-negative orthant"""
    vo, oc, uu = _mods()
    ex = Explorer("cones3d", query_timeout_ms=60000)
    stub_alpha = {"get_alpha_vec": lambda W: np.ones((W.shape[0], 1))}
    with patched((oc, stub_alpha)):
        orders = {t: vo.ConeOrder3D(t) for t in ("acute", "right", "obtuse")}
        comp = {d: vo.ComponentwiseOrder(d) for d in (2, 3, 4)}
    concrete = []
    for t, o in orders.items():
        W = o.ordering_cone.W
        Wf = [[Fraction(float(v)) for v in row] for row in W]
        unit = all(abs(sum(v * v for v in row) - 1) < Fraction(1, 10**12) for row in Wf)
        diag = all(sum(row) > 0 for row in Wf)
        dots = [sum(a * b for a, b in zip(Wf[i], Wf[j])) for i in range(3) for j in range(i + 1, 3)]
        # facet-normal angles: acute cone ⇔ normals pairwise obtuse (dot<0); obtuse cone ⇔ dot>0
        kind_ok = {"acute": all(d < 0 for d in dots), "right": all(d == 0 for d in dots),
                   "obtuse": all(d > 0 for d in dots)}[t]
        concrete.append({"cone": t, "rows_unit": unit, "diagonal_inside": diag, "normal_dots_sign_ok": kind_ok})
        if not (unit and diag and kind_ok):
            ex.violations.append({"obligation": "3d_cone_geometry", "reproduced": True,
                                  "case": {"kind": "concrete", "detail": str(concrete[-1])},
                                  "features": {"cone": t}})

    def body(ctx):
        x = ctx.reals("x", 3)
        xz = zs(x)
        with patched((oc, {"np": NpProxy()}), (vo, {"np": NpProxy()})):
            ins = {t: _sb(o.ordering_cone.is_inside(x)) for t, o in orders.items()}
            zero = symarray([Sym(sym.rv(0))] * 3)
            dom = {t: _sb(o.dominates(x, zero)) for t, o in orders.items()}
        orth = zand([v >= 0 for v in xz])
        ctx.witness("any")
        claims = {"acute⊂orthant": z3.Implies(ins["acute"], orth),
                  "right=orthant": ins["right"] == orth,
                  "orthant⊂obtuse": z3.Implies(orth, ins["obtuse"]),
                  "dominates(x,0)=is_inside(x)": zand([dom[t] == ins[t] for t in ins])}
        for d, o in comp.items():
            xs = ctx.reals(f"y{d}", d)
            with patched((oc, {"np": NpProxy()}), (vo, {"np": NpProxy()})):
                claims[f"componentwise{d}=orthant"] = _sb(o.ordering_cone.is_inside(xs)) == \
                    zand([v >= 0 for v in zs(xs)])
        for name, cl in claims.items():
            mdl = ctx.prove(name, cl)
            if mdl is not None:
                ex.candidate(name, {"kind": "concrete", "detail": f"{name} refuted at x="
                                    f"{[str(model_value(mdl, v)) for v in xz]}"}, {"claim": name})
        ctx.sample({"claims": list(claims), "concrete": concrete})

    ex.run(body)
    ex.finalize(replay)
    r = ex.result()
    r["recorded"] = concrete
    r["config"] = {"cones": list(orders)}
    return r


# ------------------------------------------------------------------------------------------
def _int_rows(W):
    """integer rows R with W[k] = c_k·R[k] exactly in binary64 up to power-of-two scalings (so that R·d = 0 ⇔ the exact facet
    value of the float matrix is 0), or None"""
    R = []
    for row in np.asarray(W, dtype=float):
        nz = [abs(v) for v in row if v != 0]
        if not nz:
            return None
        base = min(nz)
        ints = []
        for v in row:
            q = Fraction(float(v)) / Fraction(float(base))
            if q.denominator != 1 or abs(q.numerator) > 64:
                return None
            ints.append(int(q))
        R.append(ints)
    return np.array(R, dtype=np.int64)


def ties_task(tier):
    """binary64 clause (concrete, exhaustive on a lattice — the symbolic laws above are in exact reals): pairs whose
    difference lies exactly on a facet, away from the origin.  For cones whose rows are integer multiples of one float the
    exact facet values of an integer difference are integers times that float, so 'dominates ⇔ every facet value ≥ 0' has
    an exact answer; the real dominates() must give it for every offset, batched and single."""
    vo, oc, uu = _mods()
    out = {"harness": "lattice_ties(binary64)", "paths": 0, "transitions": 0, "queries": {}, "solver_s": 0.0, "violations": [],
           "inconclusive": [], "obligations": {}, "samples": [], "recorded": []}
    stub_alpha = {"get_alpha_vec": lambda W: np.ones((W.shape[0], 1))}
    cones = []
    with patched((oc, stub_alpha)):
        for t in ("acute", "obtuse", "right"):
            cones.append((f"ConeOrder3D({t})", vo.ConeOrder3D(t)))
        cones.append(("0.1·[[1,-2,4],[4,1,-2],[-2,4,1]]", vo.PolyhedralConeOrder(oc.OrderingCone(0.1 * np.array([[1, -2, 4], [4, 1, -2], [-2, 4, 1.0]])))))
        cones.append(("0.3·[[2,-1],[-1,3]]", vo.PolyhedralConeOrder(oc.OrderingCone(0.3 * np.array([[2, -1], [-1, 3.0]])))))
        cones.append(("ComponentwiseOrder(3)", vo.ComponentwiseOrder(3)))
    span = 4 if tier == "quick" else 6
    for name, order in cones:
        W = np.asarray(order.ordering_cone.W, dtype=float)
        R = _int_rows(W)
        if R is None:
            out["recorded"].append({"cone": name, "skipped": "rows are not integer multiples of one float"})
            continue
        m = W.shape[1]
        grid = np.array(list(itertools.product(range(-2, 3), repeat=m)), dtype=float)
        # differences with entries in {0, ±1, ±2, ±4}: every product w_kj·d_j is a power-of-two multiple of one float and a
        # vanishing three-term sum of such multiples has exact partial sums, so the binary64 value of W(a − b) is exact.
        # (Other lattice ties are outside: d = (1, 2, 3) lies on the facet 4x + y − 2z = 0 of the acute cone, but the rounded
        # dot product of the correct formula is −1 ulp there — rounding of the reference formula itself, not a defect.)
        D = np.array([d for d in itertools.product((-4, -2, -1, 0, 1, 2, 4), repeat=m)], dtype=float)
        facet = (D @ R.T.astype(float))
        want_d = np.all(facet >= 0, axis=1)
        on_facet = np.any(facet == 0, axis=1) & want_d          # ties: inside, on at least one facet
        Dt = D[on_facet]
        offs = np.concatenate([grid * s for s in ((1.0, 0.25, 3.0) if tier == "quick" else (1.0, 0.25, 3.0, 0.1 * 8, 7.0))])
        offs = offs[np.all(np.abs(offs) <= span * 4, axis=1)]
        n_checked = 0
        bad = None
        for d in Dt:
            B = offs
            Aa = B + d[None, :]
            if not np.array_equal(Aa - B, np.repeat(d[None, :], len(B), axis=0)):
                keep = np.all((Aa - B) == d[None, :], axis=1)    # offsets where a − b is not exact are outside this clause
                B, Aa = B[keep], Aa[keep]
            got = np.asarray(order.dominates(Aa, B)).astype(bool)
            n_checked += len(B)
            if not got.all():
                i = int(np.argmin(got))
                bad = {"cone": name, "a": Aa[i].tolist(), "b": B[i].tolist(), "d": d.tolist(), "mode": "batched"}
                break
            for i in range(0, len(B), max(1, len(B) // 7)):
                g1 = bool(np.asarray(order.dominates(Aa[i], B[i])).all())
                n_checked += 1
                if not g1:
                    bad = {"cone": name, "a": Aa[i].tolist(), "b": B[i].tolist(), "d": d.tolist(), "mode": "single"}
                    break
            if bad:
                break
        out["paths"] += 1
        out["transitions"] += n_checked
        out["recorded"].append({"cone": name, "ties": int(len(Dt)), "offsets": int(len(offs)), "pairs_checked": int(n_checked)})
        if bad:
            out["violations"].append({"obligation": "a pair whose difference lies exactly on a facet is dominated, whatever the common offset",
                                      "reproduced": True, "case": {"kind": "tie", **bad},
                                      "replay_detail": f"dominates({bad['a']}, {bad['b']}) is False ({bad['mode']}) although a − b = {bad['d']} "
                                                       f"satisfies every facet inequality of {name} (one with equality)",
                                      "features": {"cone": name, "claim": "lattice tie", "mode": bad["mode"]}})
    out["concrete_validations"] = out["transitions"]
    out["samples"] = out["recorded"][:2]
    return out


# ------------------------------------------------------------------------------------------
def icecream_task(K, theta, tier):
    """real compute_ice_cream_cone executed in exact rational arithmetic (sqrt as solver variable);
    θ concrete (grid) or symbolic ('sym': tan(π/2−θ)=cosθ/sinθ with unit-circle variables)"""
    vo, oc, uu = _mods()
    ex = Explorer(f"icecream[K={K},θ={theta}]", query_timeout_ms=240000)
    symbolic = theta == "sym"

    def body(ctx):
        if symbolic:
            th = ctx.real("theta_deg")
            ct, st = ctx.real("cos_theta"), ctx.real("sin_theta")
            ctx.assume([th > 0, th < 90])
            ctx.fact([ct.e * ct.e + st.e * st.e == 1, ct.e > 0, st.e > 0])
            trad = ctx.real("theta_rad")

            def radians(x):
                if not (isinstance(x, Sym) and z3.eq(x.e, th.e)):
                    raise HarnessError("radians() of something other than theta")
                return trad

            def tan(x):
                e = z3.simplify(sym.to_z3(x) + trad.e)
                v = sym.const_value(e)
                if v is None or abs(v - PI / 2) > Fraction(1, 10**15):
                    raise HarnessError(f"tan argument is not pi/2 - theta: {x}")
                ctx.note("tan(pi/2-θ)=cosθ/sinθ")
                rho = Sym(ctx.fresh("cot_theta"))
                ctx.fact([rho.e * st.e == ct.e, rho.e > 0])
                return rho
            hooks = {"radians": radians, "tan": tan}
            s_theta = st.e
        else:
            import mpmath as mp
            mp.mp.dps = 40
            th = theta
            s_theta = None
            hooks = {}
        proxy = NpProxy(hooks=hooks)
        with patched((vo, {"np": proxy}), (oc, {"get_alpha_vec": lambda W: np.ones((W.shape[0], 1))})):
            obj = vo.ConeOrder3DIceCream.__new__(vo.ConeOrder3DIceCream)
            W = obj.compute_ice_cream_cone(K, th)
        W = symarray(W) if not isinstance(W, SymArray) else W
        if W.shape != (K, 3):
            raise HarnessError(f"W has shape {W.shape}")
        Wq = zs(W)
        ctx.witness("any")
        # oracle: axis = R e_z with R from Rodrigues' formula in exact rationals of the same floats
        k = [Fraction(-1 / math.sqrt(2)), Fraction(1 / math.sqrt(2)), Fraction(0)]
        C = [[0, -k[2], k[1]], [k[2], 0, -k[0]], [-k[1], k[0], 0]]
        sr, cr_ = Fraction(math.sin(math.pi / 4)), Fraction(math.cos(math.pi / 4))
        CC = [[sum(C[i][l] * C[l][j] for l in range(3)) for j in range(3)] for i in range(3)]
        R = [[(1 if i == j else 0) + C[i][j] * sr + CC[i][j] * (1 - cr_) for j in range(3)] for i in range(3)]
        axis = [R[i][2] for i in range(3)]
        tol = sym.rv(Fraction(1, 10**9))
        if symbolic:
            target_lo, target_hi = s_theta - tol, s_theta + tol
        else:
            import mpmath as mp
            sv = mp.sin(mp.mpf(theta) * mp.pi / 180)
            target_lo = sym.rv(Fraction(str(sv)) - Fraction(1, 10**9))
            target_hi = sym.rv(Fraction(str(sv)) + Fraction(1, 10**9))
        one_lo, one_hi = sym.rv(1 - Fraction(1, 10**9)), sym.rv(1 + Fraction(1, 10**9))
        claims = {}
        claims["rows_unit"] = zand([z3.And(dotz(r_, r_) >= one_lo, dotz(r_, r_) <= one_hi) for r_ in Wq])
        ax = [sym.rv(a) for a in axis]
        claims["facet tangent to circular cone: w_k·axis = sin θ"] = zand(
            [z3.And(dotz(r_, ax) >= target_lo, dotz(r_, ax) <= target_hi) for r_ in Wq])
        if K >= 3:
            d0 = dotz(Wq[0], Wq[1])
            for i in range(1, K):   # one small query per adjacent pair (a single conjunction was `unknown` for K = 7)
                claims[f"facets equally spaced ({i},{(i + 1) % K})"] = z3.And(
                    dotz(Wq[i], Wq[(i + 1) % K]) - d0 <= tol, d0 - dotz(Wq[i], Wq[(i + 1) % K]) <= tol)
        claims["axis strictly inside"] = zand([dotz(r_, ax) > 0 for r_ in Wq])
        for name, cl in claims.items():
            mdl = ctx.prove(name, cl)
            if mdl is not None:
                tv = frac_json(model_value(mdl, th.e)) if symbolic else theta
                ex.candidate(name, {"kind": "icecream", "K": K, "theta": tv, "claim": name},
                             {"claim": name, "K": K})
                return
        ctx.sample({"K": K, "theta": str(theta), "claims": list(claims)})

    ex.run(body)
    ex.finalize(_replay_icecream)
    r = ex.result()
    r["config"] = {"K": K, "theta": str(theta)}
    return r


def _replay_icecream(case):
    vo, oc, uu = _mods()
    th = case["theta"]
    th = float(Fraction(from_frac_json(th))) if isinstance(th, str) else float(th)
    with patched((oc, {"get_alpha_vec": lambda W: np.ones((W.shape[0], 1))})):
        W = vo.ConeOrder3DIceCream(th, case["K"]).ordering_cone.W
    axis = np.array([1, 1, 1]) / np.sqrt(3)
    k = np.array([-1 / np.sqrt(2), 1 / np.sqrt(2), 0])
    Cm = np.array([[0, -k[2], k[1]], [k[2], 0, -k[0]], [-k[1], k[0], 0]])
    R = np.eye(3) + Cm * np.sin(np.pi / 4) + Cm @ Cm * (1 - np.cos(np.pi / 4))
    axis = R @ np.array([0, 0, 1.0])
    unit = np.allclose(np.linalg.norm(W, axis=1), 1, atol=1e-9)
    tang = np.allclose(W @ axis, np.sin(np.radians(th)), atol=1e-8)
    nb = [W[i] @ W[(i + 1) % len(W)] for i in range(len(W))]
    spaced = np.allclose(nb, nb[0], atol=1e-8)
    bad = not (unit and tang and spaced)
    return {"reproduced": bad, "detail": f"ConeOrder3DIceCream({th},{case['K']}): rows unit={unit}, "
            f"w·axis=sinθ {tang} (got {np.round(W @ axis, 6).tolist()}, want {np.sin(np.radians(th)):.6f}), "
            f"equally spaced={spaced}"}


# ------------------------------------------------------------------------------------------
def tasks(tier, seed):
    ts = []
    for cone, W in cone_set(tier, seed=seed):
        ts.append({"id": f"laws[{cone}]", "fn": "laws_task", "args": {"cone": cone, "W": W.tolist(), "tier": tier}})
    for nm, Wi in (("int_orthant2", [[1, 0], [0, 1]]), ("int_skew2", [[2, -1], [-1, 3]]), ("int_3facets", [[1, 0], [0, 1], [1, 1]]),
                   ("int_3d", [[2, -1, 0], [0, 2, -1], [-1, 0, 2]])):
        ts.append({"id": f"laws[{nm}]", "fn": "laws_task", "args": {"cone": nm, "W": Wi, "tier": tier, "int_W": True}})
    ts.append({"id": "lattice_ties", "fn": "ties_task", "args": {"tier": tier}, "weight": 5})
    ts.append({"id": "laws[symbolic 2x2]", "fn": "laws_task",
               "args": {"cone": "symbolic2x2", "W": None, "tier": tier, "symbolic_W": True, "m": 2, "K": 2},
               "weight": 5})
    if tier == "thorough":
        for K, m in ((3, 2), (3, 3)):
            ts.append({"id": f"laws[symbolic {K}x{m}]", "fn": "laws_task",
                       "args": {"cone": f"symbolic{K}x{m}", "W": None, "tier": tier, "symbolic_W": True,
                                "m": m, "K": K}, "weight": 20})
    ts.append({"id": "theta[symbolic]", "fn": "theta_symbolic_task", "args": {"tier": tier}, "weight": 10})
    thetas = [30, 45, 60, 90, 120, 135, 150] if tier == "quick" else \
        [1, 5] + list(range(10, 180, 10)) + [45, 135, 175, 179]
    for th in thetas:
        ts.append({"id": f"theta[{th}]", "fn": "theta_grid_task", "args": {"theta": th, "tier": tier}})
    ts.append({"id": "cones3d", "fn": "cones3d_task", "args": {"tier": tier}})
    Ks = [3, 4, 6] if tier == "quick" else [3, 4, 5, 6, 7, 8]
    ths = [30, 45] if tier == "quick" else [5, 10, 20, 30, 40, 45, 50, 60, 70, 80, 85]
    for K in Ks:
        for th in ths:
            ts.append({"id": f"icecream[K={K},θ={th}]", "fn": "icecream_task",
                       "args": {"K": K, "theta": th, "tier": tier}, "weight": 3})
    return ts


def meta(tier):
    vo, oc, uu = _mods()
    return {
        "level": "model_checking",
        "functions": src_info(oc.OrderingCone.is_inside, oc.OrderingCone.__init__, oc.ConeTheta2D.__init__,
                              vo.PolyhedralConeOrder.dominates, uu.get_2d_w, vo.ConeOrder3D.__init__,
                              vo.ConeOrder3DIceCream.compute_ice_cream_cone, vo.ComponentwiseOrder.__init__),
        "bounds": {"m": "2..3 (componentwise 2..4)", "K": "<=8", "batch": 3,
                   "theta": "symbolic over (0,180)\\{90} plus a concrete grid incl. 90",
                   "symbolic_W": "2x2 (quick); 3x2, 3x3 (thorough)"},
        "stubs": ["np.tan(pi/4 ∓ θ/2) = (c∓s)/(c±s) with c=cos θ/2, s=sin θ/2, c²+s²=1, c,s>0 (tangent addition "
                  "formula, trusted); (θ<=90) ⇔ (s<=c)", "np.tan(pi/2−θ)=cosθ/sinθ; np.radians opaque",
                  "np.linalg.norm / np.sqrt: solver variable r>=0, r²=x", "get_alpha_vec no-op (C17's business)"],
        "assumptions": ["floats are encoded as exact reals", "mpmath enclosures of cos/sin at concrete angles "
                        "(40 digits) with a 1e-9 tolerance band in the angle",
                        "ice-cream rotation constants are the floats VOPy computes, tolerance 1e-9"],
        "outside": ["rounding in x @ W.T", "ice-cream cone half-angles between grid points (the symbolic-θ query "
                    "'w_k·axis = sin θ ± 1e-9' returned unknown after 250-760 s in z3 nlsat: tool limit)", "θ = 90° exactly in the symbolic harness (covered by the concrete grid)"],
        "explanation": "order laws proved on the merged symbolic value of the real dominates/is_inside code; "
                       "cone geometry proved on the symbolic output of the real constructors",
    }
