"""symx.harness — shared utilities for the per-property checks."""
from __future__ import annotations

import contextlib
import hashlib
import inspect
import os
import sys
from fractions import Fraction

import numpy as np
import z3

from . import sym
from .arr import NpProxy, SymArray, symarray
from .sym import Sym, SymBool

REPO = os.environ.get("VERIF_REPO", "/repo")
VERIF = os.path.dirname(os.path.dirname(os.path.abspath(__file__)))


def load_repo():
    """make `import vopy` resolve to the working tree under analysis"""
    if sys.path[0] != REPO:
        sys.path.insert(0, REPO)
    os.environ.setdefault("OMP_NUM_THREADS", "1")
    os.environ.setdefault("MKL_NUM_THREADS", "1")
    import vopy  # noqa
    got = os.path.dirname(os.path.dirname(os.path.abspath(vopy.__file__)))
    if os.path.realpath(got) != os.path.realpath(REPO):
        raise RuntimeError(f"vopy imported from {got}, expected {REPO}")
    return REPO


@contextlib.contextmanager
def patched(*pairs):
    """patched((module, {name: value, ...}), ...) — redirect module globals for the duration"""
    saved = []
    try:
        for mod, names in pairs:
            for n, v in names.items():
                saved.append((mod, n, getattr(mod, n, _MISSING)))
                setattr(mod, n, v)
        yield
    finally:
        for mod, n, old in reversed(saved):
            if old is _MISSING:
                delattr(mod, n)
            else:
                setattr(mod, n, old)


_MISSING = object()


def src_info(*funcs):
    """qualified name + sha256 of the current source of each encoded function"""
    out = []
    for f in funcs:
        try:
            g = f.fget if isinstance(f, property) else f
            g = getattr(g, "__func__", g)
            src = inspect.getsource(g)
            name = f"{g.__module__}.{g.__qualname__}"
            out.append({"function": name, "sha256": hashlib.sha256(src.encode()).hexdigest()[:16],
                        "file": os.path.relpath(inspect.getsourcefile(g), REPO)})
        except Exception as ex:  # pragma: no cover
            out.append({"function": repr(f), "error": repr(ex)})
    return out


def frac(x):
    return Fraction(float(x))


def model_floats(m, syms):
    """evaluate Sym / arrays of Sym under model m -> nested python floats (exact where rational)"""
    from .explore import model_value
    if isinstance(syms, np.ndarray):
        out = np.empty(syms.shape, dtype=object)
        b = syms.view(np.ndarray)
        for idx in np.ndindex(*syms.shape):
            out[idx] = model_value(m, sym.to_z3(b[idx]))
        return out
    if isinstance(syms, (list, tuple)):
        return [model_floats(m, s) for s in syms]
    return model_value(m, sym.to_z3(syms))


def to_float_array(a):
    return np.array([[float(v) for v in row] for row in a], dtype=float) if np.ndim(a) == 2 \
        else np.array([float(v) for v in a], dtype=float)


def frac_json(a):
    """Fractions -> JSON-able ('num/den' strings keep exactness)"""
    if isinstance(a, np.ndarray):
        return [frac_json(x) for x in a]
    if isinstance(a, (list, tuple)):
        return [frac_json(x) for x in a]
    if isinstance(a, Fraction):
        return f"{a.numerator}/{a.denominator}"
    if isinstance(a, (bool, str)) or a is None:
        return a
    if isinstance(a, (int, float)):
        return a
    return str(a)


def from_frac_json(a):
    if isinstance(a, list):
        return [from_frac_json(x) for x in a]
    if isinstance(a, str) and "/" in a:
        n, d = a.split("/")
        return Fraction(int(n), int(d))
    if isinstance(a, str):
        try:
            return Fraction(a)
        except Exception:
            return a
    return a


# ------------------------------------------------------------------------------------------
# cone set 𝒲 (concrete cones taken from VOPy's own constructors on this run)
def cone_set(tier, dims=(2, 3), include_K_gt_m=True, seed=0):
    load_repo()
    from vopy.utils import get_2d_w
    from vopy.order import ConeOrder3D, ConeOrder3DIceCream
    cones = []
    if 2 in dims:
        cones.append(("orthant2", np.eye(2)))
        thetas = [45, 60, 90, 120, 135] if tier == "quick" else list(range(10, 171, 10))
        for th in thetas:
            cones.append((f"theta{th}", get_2d_w(th)))
    if 3 in dims:
        cones.append(("orthant3", np.eye(3)))
        for t in ("acute", "obtuse"):
            cones.append((f"3d_{t}", _order_W(ConeOrder3D, t)))
        # an asymmetric cone whose facets have clearly different α_n (0.711, 0.716, 0.883)
        Wa = np.array([[1.0, -0.8, 0.0], [0.0, 1.0, -0.2], [-0.3, 0.0, 1.0]])
        cones.append(("asym3d", Wa / np.linalg.norm(Wa, axis=1, keepdims=True)))
        if include_K_gt_m:
            ks = [4, 6] if tier != "quick" else [4]
            for k in ks:
                cones.append((f"icecream_K{k}", _order_W(ConeOrder3DIceCream, 30 if k == 4 else 45, k)))
    rng = np.random.RandomState(12345 + seed)
    for d in dims:
        for r in range(1 if tier == "quick" else 2):
            # random rational pointed cone containing the diagonal: rows = diag + small perturbation
            while True:
                W = np.round(rng.uniform(-1, 1, size=(d, d)) * 8) / 8 + np.ones((d, d)) / 2 + np.eye(d)
                if abs(np.linalg.det(W)) > 0.2:
                    break
            W = W / np.linalg.norm(W, axis=1, keepdims=True)
            cones.append((f"rand{d}d_{r}", W))
    return cones


def _order_W(cls, *args):
    """W of a bundled order without paying for (or depending on) get_alpha_vec"""
    import vopy.ordering_cone as oc
    with patched((oc, {"get_alpha_vec": lambda W: np.ones((W.shape[0], 1))})):
        return np.array(cls(*args).ordering_cone.W, dtype=float)


def make_order(W, alpha=None):
    """real PolyhedralConeOrder on a real OrderingCone with the given W (alpha optional)"""
    import vopy.ordering_cone as oc
    from vopy.order import PolyhedralConeOrder
    if alpha is None:
        with patched((oc, {"get_alpha_vec": lambda W: np.ones((W.shape[0], 1))})):
            cone = oc.OrderingCone(W)
    else:
        with patched((oc, {"get_alpha_vec": lambda W: np.asarray(alpha).reshape(-1, 1)})):
            cone = oc.OrderingCone(W)
    return PolyhedralConeOrder(cone)


def Wz(W):
    """exact z3 rationals of a float matrix"""
    return [[sym.rv(v) for v in row] for row in np.asarray(W, dtype=float)]


def dotz(row, vec):
    """Σ row_i * vec_i over z3 terms"""
    acc = None
    for r, v in zip(row, vec):
        t = r * v
        acc = t if acc is None else acc + t
    return acc


def zand(xs):
    xs = list(xs)
    return z3.And(*xs) if xs else z3.BoolVal(True)


def zor(xs):
    xs = list(xs)
    return z3.Or(*xs) if xs else z3.BoolVal(False)


def zs(a):
    """array of Sym -> nested list of z3 terms"""
    if isinstance(a, np.ndarray):
        if a.ndim == 1:
            return [sym.to_z3(v) for v in a.view(np.ndarray)]
        return [zs(r) for r in a]
    if isinstance(a, (list, tuple)):
        return [zs(r) if isinstance(r, (list, tuple, np.ndarray)) else sym.to_z3(r) for r in a]
    return sym.to_z3(a)
