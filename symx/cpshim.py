"""symx.cpshim — contract stub for the subset of cvxpy that VOPy uses.

The shim *records the program the VOPy code builds* (constraints / objective as z3 terms over
fresh variables) and answers `solve()` with the mathematically exact answer of that program:

feasibility problem (constant objective): forks on a fresh boolean.
    feasible   -> status "optimal", Variable.value = a Skolem witness satisfying the constraints
    infeasible -> status "infeasible", Variable.value = None, and the universal fact
                  "no point satisfies the constraints" is recorded for instantiation
optimisation (Minimize(expr)): value = v with an attainment witness (constraints hold,
    objective = v) and the universal fact "every feasible point has objective >= v".

Universal facts are never handed to z3 as quantifiers: the harness instantiates them at the points
its obligation talks about (`instantiate`).  Assumed (part of the claim): the optimum exists and is
attained (compact non-empty feasible sets), exact statuses; `*_inaccurate`, solver exceptions and
the SCS fallback are outside.
"""
from __future__ import annotations

import numpy as np
import z3

from . import sym
from .arr import SymArray, _base, wrap
from .sym import HarnessError, Sym, SymBool

_CMP = {np.greater_equal: "ge", np.less_equal: "le", np.equal: "eq", np.greater: "gt", np.less: "lt"}


class Constraint:
    def __init__(self, forms):
        self.forms = list(forms)

    def formula(self):
        return z3.And(*self.forms) if self.forms else z3.BoolVal(True)

    def __bool__(self):
        raise HarnessError("truth value of a cvxpy constraint")


def _rewrap(r):
    if isinstance(r, np.ndarray) and r.dtype == object and not isinstance(r, CpArr):
        return r.view(CpArr)
    if isinstance(r, tuple):
        return tuple(_rewrap(x) for x in r)
    return r


class CpArr(SymArray):
    """array of affine expressions in cvxpy variables; comparisons build constraints"""
    __array_priority__ = 200.0

    def __array_ufunc__(self, ufunc, method, *inputs, out=None, **kw):
        if ufunc in _CMP and method == "__call__":
            a, b = (np.asarray(_base(x), dtype=object) for x in inputs)
            a, b = np.broadcast_arrays(a, b)
            op = _CMP[ufunc]
            forms = []
            for x, y in zip(a.ravel(), b.ravel()):
                xe, ye = sym.to_z3(x), sym.to_z3(y)
                forms.append({"ge": xe >= ye, "le": xe <= ye, "eq": xe == ye,
                              "gt": xe > ye, "lt": xe < ye}[op])
            return Constraint(forms)
        ins = tuple(x.view(SymArray) if isinstance(x, CpArr) else x for x in inputs)
        r = SymArray.__array_ufunc__(ins[0] if isinstance(ins[0], SymArray) else
                                     next(x for x in ins if isinstance(x, SymArray)),
                                     ufunc, method, *ins, out=out, **kw)
        return _rewrap(r)

    def __array_function__(self, func, types, args, kwargs):
        def dn(x):
            if isinstance(x, CpArr):
                return x.view(SymArray)
            if isinstance(x, (list, tuple)):
                return type(x)(dn(y) for y in x)
            return x
        r = SymArray.__array_function__(self.view(SymArray), func, types, dn(args), dn(kwargs))
        return _rewrap(r)

    def __getitem__(self, key):
        r = np.ndarray.__getitem__(self, key)
        if isinstance(r, np.ndarray) and r.dtype == object:
            return r.view(CpArr)
        return r

    # scalar results (0-d) of e.g. `w @ x` are plain Sym: comparisons on them yield SymBool; the
    # shim accepts SymBool as a constraint too (see _as_constraint)


class Variable(CpArr):
    def __new__(cls, shape=(), **kw):
        ctx = sym._ctx()
        if isinstance(shape, (int, np.integer)):
            shape = (int(shape),)
        a = np.empty(shape, dtype=object)
        vs = []
        for idx in np.ndindex(*shape):
            v = ctx.fresh("cpvar")
            vs.append(v)
            a[idx] = Sym(v)
        obj = a.view(cls)
        obj._vars = vs
        obj._value = None
        ctx.user.setdefault("cp_variables", []).append(obj)
        return obj

    def __array_finalize__(self, obj):
        self._vars = getattr(obj, "_vars", None)
        self._value = None

    @property
    def value(self):
        return self._value


class NormExpr:
    def __init__(self, v):
        self.v = [sym.to_z3(x) for x in np.asarray(_base(v), dtype=object).ravel()]

    def __le__(self, a):
        return soc_constraint(a, self.v)

    def __ge__(self, a):
        raise HarnessError("non-convex constraint norm(x) >= a")


def soc_constraint(t, xs):
    te = [sym.to_z3(x) for x in np.asarray(_base(t), dtype=object).ravel()]
    if len(te) != 1:
        raise HarnessError("SOC bound is not a scalar")
    t = te[0]
    xs = [sym.to_z3(x) for x in np.asarray(_base(xs), dtype=object).ravel()] \
        if not isinstance(xs, list) else xs
    xs = [x for x in xs if not (sym.const_value(z3.simplify(x)) == 0)]
    if not xs:          # ‖0‖ ≤ t  is the linear constraint t ≥ 0
        return Constraint([t >= 0])
    sq = sum((x * x for x in xs), sym.rv(0))
    tc = sym.const_value(z3.simplify(t))
    if tc is not None:
        return Constraint([z3.BoolVal(tc >= 0), sq <= sym.rv(tc * tc)])
    return Constraint([t >= 0, sq <= t * t])


def _as_constraint(c):
    if isinstance(c, Constraint):
        return c
    if isinstance(c, SymBool):
        return Constraint([c.e])
    if isinstance(c, (bool, np.bool_)):
        return Constraint([z3.BoolVal(bool(c))])
    if isinstance(c, np.ndarray) and c.dtype == object:
        return Constraint([sym.sbool(x) for x in c.ravel()])
    raise HarnessError(f"unsupported constraint object {type(c)}")


class Minimize:
    def __init__(self, expr):
        if isinstance(expr, np.ndarray):
            if expr.size != 1:
                raise HarnessError("vector objective")
            expr = np.asarray(_base(expr), dtype=object).ravel()[0]
        self.expr = sym.to_z3(expr)


class Maximize:
    def __init__(self, expr):
        raise HarnessError("cp.Maximize is not modelled")


class _Error:
    class SolverError(Exception):
        pass


class Universal:
    """∀ vars: body  — instantiate(point) gives the QF fact body[vars := point]"""

    def __init__(self, vars_, body, kind, tag):
        self.vars, self.body, self.kind, self.tag = vars_, body, kind, tag

    def at(self, point):
        point = [sym.to_z3(p) for p in point]
        if len(point) != len(self.vars):
            raise HarnessError("instantiation point of wrong size")
        return z3.substitute(self.body, *zip(self.vars, point))


class Problem:
    def __init__(self, objective, constraints=None):
        self.objective = objective
        self.constraints = [_as_constraint(c) for c in (constraints or [])]
        self.status = None
        self.value = None
        self._solved = False

    def _variables(self):
        ctx = sym._ctx()
        out = []
        for v in ctx.user.get("cp_variables", []):
            out.append(v)
        return out

    def solve(self, solver=None, **kw):
        ctx = sym._ctx()
        form = z3.And(*[c.formula() for c in self.constraints]) if self.constraints else z3.BoolVal(True)
        obj = self.objective.expr
        # variables occurring in this program
        occurring = _free_cpvars(z3.And(form, obj == obj))
        variables = [v for v in self._variables() if any(x.get_id() in occurring for x in v._vars)]
        base = [x for v in variables for x in v._vars]
        wit = [ctx.fresh("cpwit") for _ in base]
        sub = list(zip(base, wit))
        n = ctx.user.setdefault("cp_solves", 0)
        ctx.user["cp_solves"] = n + 1
        is_feas_problem = sym.const_value(z3.simplify(obj)) is not None
        rec = {"vars": base, "constraints": form, "objective": obj, "witness": wit, "index": n}
        ctx.user.setdefault("cp_problems", []).append(rec)
        if is_feas_problem:
            feas = ctx.freshbool("cp_feasible")
            if bool(feas):
                ctx.fact(z3.substitute(form, *sub) if sub else form)
                self.status = "optimal"
                self.value = float(sym.const_value(z3.simplify(obj)))
                self._set_values(variables, wit)
                rec["outcome"] = "feasible"
            else:
                self.status = "infeasible"
                self.value = float("inf")
                for v in variables:
                    v._value = None
                u = Universal(base, z3.Not(form), "infeasible", n)
                ctx.user.setdefault("cp_universals", []).append(u)
                rec["outcome"] = "infeasible"
                rec["universal"] = u
            return self.value
        v = ctx.fresh("cpopt")
        ctx.fact(z3.substitute(form, *sub))
        ctx.fact(z3.substitute(obj, *sub) == v)
        u = Universal(base, z3.Implies(form, obj >= v), "lower_bound", n)
        ctx.user.setdefault("cp_universals", []).append(u)
        rec["outcome"] = "optimal"
        rec["universal"] = u
        rec["optimum"] = v
        self.status = "optimal"
        self.value = Sym(v)
        self._set_values(variables, wit)
        return self.value

    @staticmethod
    def _set_values(variables, wit):
        k = 0
        for v in variables:
            n = len(v._vars)
            a = np.empty(n, dtype=object)
            for i in range(n):
                a[i] = Sym(wit[k + i])
            k += n
            v._value = a.reshape(np.shape(v)).view(SymArray)


def _free_cpvars(e):
    seen, out, stack = set(), set(), [e]
    while stack:
        t = stack.pop()
        i = t.get_id()
        if i in seen:
            continue
        seen.add(i)
        if z3.is_const(t) and t.decl().kind() == z3.Z3_OP_UNINTERPRETED:
            out.add(i)
        else:
            stack.extend(t.children())
    return out


class CpShim:
    """stand-in for the module global `cp`"""
    Variable = Variable
    Minimize = Minimize
    Maximize = Maximize
    Problem = Problem
    error = _Error
    SCS = "SCS"
    ECOS = "ECOS"
    CLARABEL = "CLARABEL"

    @staticmethod
    def norm(v, p=2, **kw):
        if p != 2:
            raise HarnessError(f"cp.norm with p={p}")
        return NormExpr(v)

    norm2 = norm

    @staticmethod
    def SOC(t, x, **kw):
        return soc_constraint(t, x)


def universals(ctx, kind=None):
    return [u for u in ctx.user.get("cp_universals", []) if kind is None or u.kind == kind]


def problems(ctx):
    return ctx.user.get("cp_problems", [])
