"""symx.lp — linear-program helpers on z3 terms: atom extraction, Farkas certificates, exact
rational LP feasibility on concrete data (used as replay oracle)."""
from __future__ import annotations

from fractions import Fraction

import z3

from . import sym
from .sym import HarnessError


def flatten_and(f):
    out, stack = [], [f]
    while stack:
        t = stack.pop()
        if z3.is_and(t):
            stack.extend(t.children())
        elif z3.is_true(t):
            continue
        else:
            out.append(t)
    return out[::-1]


def linear_atoms(formula, xs):
    """formula: conjunction of (in)equalities linear in xs.  Returns list of (coeffs, const, kind)
    meaning  Σ coeffs_j x_j + const  (>= | ==)  0, with coeffs/const z3 terms over the data."""
    atoms = []
    zero = [(x, z3.RealVal(0)) for x in xs]
    for a in flatten_and(formula):
        k = a.decl().kind()
        if k == z3.Z3_OP_GE:
            e, kind = a.arg(0) - a.arg(1), "ge"
        elif k == z3.Z3_OP_LE:
            e, kind = a.arg(1) - a.arg(0), "ge"
        elif k == z3.Z3_OP_EQ:
            e, kind = a.arg(0) - a.arg(1), "eq"
        else:
            raise HarnessError(f"not a linear (in)equality atom: {a}")
        c0 = z3.simplify(z3.substitute(e, *zero)) if zero else z3.simplify(e)
        coeffs = []
        for j, x in enumerate(xs):
            one = [(y, z3.RealVal(1) if i == j else z3.RealVal(0)) for i, y in enumerate(xs)]
            coeffs.append(z3.simplify(z3.substitute(e, *one) - c0))
        atoms.append((coeffs, c0, kind))
    return atoms


def farkas_infeasible(atoms, fresh, margin=None):
    """z3 formula over fresh multipliers certifying that {x : atoms} is empty:
    λ >= 0 (free for equalities), Σ λ_i a_i = 0, Σ λ_i c_i < 0   (a_i·x + c_i >= 0)"""
    lams = [fresh("lam") for _ in atoms]
    n = len(atoms[0][0]) if atoms else 0
    cons = []
    for (co, c0, kind), l in zip(atoms, lams):
        if kind == "ge":
            cons.append(l >= 0)
    for j in range(n):
        cons.append(sum((l * a[0][j] for a, l in zip(atoms, lams)), z3.RealVal(0)) == 0)
    tot = sum((l * a[1] for a, l in zip(atoms, lams)), z3.RealVal(0))
    if margin is None:
        cons.append(tot < 0)
    else:
        cons.append(sum((l for a, l in zip(atoms, lams) if a[2] == "ge"), z3.RealVal(0)) == 1)
        cons.append(tot <= -sym.rv(margin))
    return z3.And(*cons), lams


def exact_lp_feasible(rows):
    """rows: list of (coeff list of Fractions, const Fraction) meaning a·x + c >= 0; exact LRA"""
    if not rows:
        return True
    n = len(rows[0][0])
    xs = [z3.Real(f"x{j}") for j in range(n)]
    s = z3.Solver()
    for co, c in rows:
        s.add(sum((sym.rv(a) * x for a, x in zip(co, xs)), z3.RealVal(0)) + sym.rv(c) >= 0)
    r = s.check()
    if r == z3.unknown:
        raise HarnessError("exact LP unknown")
    return r == z3.sat
