"""symx.runner — ./check <Cxx> <quick|thorough> [--replay file]

Runs the harness tasks of checks/<cxx>.py in a process pool, aggregates the solver verdicts,
matches reproduced counterexamples against known_findings.json, writes evidence/<Cxx>.json.

exit 0  every obligation unsat on every feasible path within the stated bounds (or only
        violations listed as open known findings: one KNOWN-FINDING line each)
exit 1  a reproducing counterexample not listed: VIOLATION property=<id> replay=<path>
exit 3  inconclusive (solver unknown, budget exhausted, non-reproducing model, harness error)
"""
from __future__ import annotations

import importlib
import json
import multiprocessing as mp
import os
import re
import sys
import time
import traceback

HERE = os.path.dirname(os.path.dirname(os.path.abspath(__file__)))
sys.path.insert(0, HERE)


def _worker(args):
    modname, task = args
    t0 = time.time()
    try:
        from symx.harness import load_repo
        load_repo()
        mod = importlib.import_module(modname)
        r = getattr(mod, task["fn"])(**task.get("args", {}))
        r.setdefault("harness", task["id"])
        r["task"] = task["id"]
        r["task_wall_s"] = round(time.time() - t0, 3)
        return r
    except BaseException as ex:  # noqa
        return {"task": task["id"], "harness": task["id"], "paths": 0, "transitions": 0,
                "inconclusive": ["worker exception: " + repr(ex) + "\n" + traceback.format_exc()[-1500:]],
                "violations": [], "queries": {}, "solver_s": 0.0, "task_wall_s": round(time.time() - t0, 3)}


def load_known():
    p = os.path.join(HERE, "known_findings.json")
    if not os.path.exists(p):
        return []
    return json.load(open(p)).get("findings", [])


def _match_value(spec, val):
    if isinstance(spec, dict):
        if "min" in spec and not (val is not None and val >= spec["min"]):
            return False
        if "max" in spec and not (val is not None and val <= spec["max"]):
            return False
        if "in" in spec and val not in spec["in"]:
            return False
        if "regex" in spec and not (isinstance(val, str) and re.search(spec["regex"], val)):
            return False
        return True
    return spec == val


def known_match(prop, harness, features, known):
    for k in known:
        if k.get("status") != "open" or k.get("property") != prop:
            continue
        if k.get("harness") and not re.fullmatch(k["harness"], harness):
            continue
        if all(_match_value(spec, features.get(f)) for f, spec in k.get("match", {}).items()):
            return k
    return None


def main(argv=None):
    argv = list(sys.argv[1:] if argv is None else argv)
    if not argv:
        print(__doc__)
        return 2
    prop = argv[0].upper()
    modname = "checks." + prop.lower()
    seed = int(os.environ.get("VERIF_SEED", "0") or 0)
    if "--replay" in argv:
        path = argv[argv.index("--replay") + 1]
        from symx.harness import load_repo
        load_repo()
        mod = importlib.import_module(modname)
        case = json.load(open(path))
        res = mod.replay(case["case"])
        print(json.dumps(res, indent=1, default=str))
        if res.get("reproduced"):
            print(f"VIOLATION property={prop} replay={path}")
            return 1
        return 0
    tier = argv[1] if len(argv) > 1 else os.environ.get("VERIF_TIER", "quick")
    if tier not in ("quick", "thorough"):
        tier = "quick"
    os.environ.setdefault("VERIF_TASK_BUDGET", "900" if tier == "quick" else "5400")
    t0 = time.time()
    from symx.harness import load_repo, REPO
    load_repo()
    mod = importlib.import_module(modname)
    tasks = mod.tasks(tier, seed)
    nproc = int(os.environ.get("VERIF_JOBS", str(min(16, os.cpu_count() or 4))))
    # longest first
    tasks_sorted = sorted(tasks, key=lambda t: -t.get("weight", 1))
    if nproc <= 1 or len(tasks_sorted) == 1:
        results = [_worker((modname, t)) for t in tasks_sorted]
    else:
        ctx = mp.get_context("fork")
        with ctx.Pool(min(nproc, len(tasks_sorted)), maxtasksperchild=1) as pool:
            results = []
            for r in pool.imap_unordered(_worker, [(modname, t) for t in tasks_sorted], chunksize=1):
                results.append(r)
                if os.environ.get("VERIF_PROGRESS"):
                    print(f"[{time.time() - t0:7.0f}s] {len(results)}/{len(tasks_sorted)} {r.get('harness')} "
                          f"wall={r.get('wall_s')} viol={len(r.get('violations', []))} inc={len(r.get('inconclusive', []))}",
                          file=sys.stderr, flush=True)
            results.sort(key=lambda r: str(r.get("harness")))
    known = load_known()
    os.makedirs(os.path.join(HERE, "replays"), exist_ok=True)
    os.makedirs(os.path.join(HERE, "evidence"), exist_ok=True)

    n_new = n_known = 0
    lines = []
    incon = []
    known_seen = {}
    for r in results:
        for inc in r.get("inconclusive", []):
            incon.append(f"{r['harness']}: {inc}")
        for i, v in enumerate(r.get("violations", [])):
            if not v.get("reproduced"):
                incon.append(f"{r['harness']}: model for obligation {v.get('obligation')} did not "
                             f"reproduce on the real code ({v.get('replay_detail')})")
                continue
            k = known_match(prop, r["harness"], v.get("features", {}), known)
            rp = os.path.join(HERE, "replays", f"{prop}_{_slug(r['harness'])}_{i}.json")
            json.dump({"property": prop, "harness": r["harness"], "obligation": v.get("obligation"),
                       "features": v.get("features"), "case": v.get("case"),
                       "how_to_replay": f"cd /verif && ./check {prop} --replay {rp}"},
                      open(rp, "w"), indent=1, default=str)
            if k is not None:
                n_known += 1
                if k["id"] not in known_seen:
                    known_seen[k["id"]] = (k, rp)
            else:
                n_new += 1
                if n_new <= 5:
                    lines.append(f"VIOLATION property={prop} replay={rp}")
                    lines.append(f"  harness={r['harness']} obligation={v.get('obligation')} "
                                 f"features={json.dumps(v.get('features'), default=str)}")
    for kid, (k, rp) in known_seen.items():
        lines.append(f"KNOWN-FINDING: property={prop} {k['id']}: {k['what_fails']} (replay={rp})")

    wall = time.time() - t0
    ev = build_evidence(mod, prop, tier, seed, results, wall, n_new, n_known, incon, REPO)
    evdir = os.path.join(HERE, "evidence")
    if os.path.realpath(REPO) != os.path.realpath("/repo"):
        # a run against a scratch copy (mutant / seeded change) must not overwrite the evidence of /repo itself
        evdir = os.environ.get("VERIF_SCRATCH_EVIDENCE", "/var/tmp/verif_scratch_evidence")
        os.makedirs(evdir, exist_ok=True)
    json.dump(ev, open(os.path.join(evdir, f"{prop}.json"), "w"), indent=1, default=str)

    tot_paths = sum(r.get("paths", 0) for r in results)
    q = {}
    for r in results:
        for k_, v_ in r.get("queries", {}).items():
            q[k_] = q.get(k_, 0) + v_
    print(f"[{prop} {tier}] harnesses={len(results)} paths={tot_paths} queries={q} "
          f"solver_s={sum(r.get('solver_s', 0) for r in results):.1f} wall_s={wall:.1f}")
    for r in results:
        ob = r.get("obligations", {})
        obs = " ".join(f"{k_}:{v_['unsat']}u/{v_['sat']}s/{v_['unknown']}?" for k_, v_ in ob.items())
        print(f"  {r['harness']}: paths={r.get('paths')} wall={r.get('task_wall_s')}s {obs}"
              + (" INCONCLUSIVE" if r.get("inconclusive") else "")
              + (f" VIOLATIONS={len(r.get('violations', []))}" if r.get("violations") else ""))
    for ln in lines:
        print(ln)
    if n_new:
        return 1
    if incon:
        for s in incon[:10]:
            print("INCONCLUSIVE:", s[:600])
        return 3
    print(f"OK property={prop}: held on everything explored within the stated bounds"
          + (f" ({n_known} counterexample(s) matched open known findings)" if n_known else ""))
    return 0


def _slug(s):
    return re.sub(r"[^A-Za-z0-9_.-]+", "_", s)[:80]


def build_evidence(mod, prop, tier, seed, results, wall, n_new, n_known, incon, repo):
    meta = mod.meta(tier) if hasattr(mod, "meta") else {}
    paths = sum(r.get("paths", 0) for r in results)
    trans = sum(r.get("transitions", 0) for r in results)
    q = {}
    obl = {}
    for r in results:
        for k_, v_ in r.get("queries", {}).items():
            q[k_] = q.get(k_, 0) + v_
        for k_, v_ in r.get("obligations", {}).items():
            o = obl.setdefault(k_, {"unsat": 0, "sat": 0, "unknown": 0})
            for kk in o:
                o[kk] += v_.get(kk, 0)
    samples = []
    for r in results:
        for s in r.get("samples", [])[:1]:
            samples.append({"harness": r["harness"], "case": s})
        if len(samples) >= 6:
            break
    if not samples:
        samples = [{"harness": r["harness"], "paths": r.get("paths")} for r in results[:3]]
    validated = sum(r.get("concrete_validations", 0) for r in results)
    level = meta.get("level", "model_checking")
    cov = {
        "states": max(paths, 1) if paths else 0,
        "transitions": max(trans, 1) if paths else 0,
        "traces_validated_against_impl": validated,
        "samples": samples,
        "exhaustive": not incon,
        "explanation": meta.get("explanation", ""),
        "bounds": meta.get("bounds", {}),
        "functions_encoded": meta.get("functions", []),
        "stubs": meta.get("stubs", []),
        "outside_the_claim": meta.get("outside", []),
        "solver": "z3 " + _z3v(),
        "queries": q,
        "solver_seconds": round(sum(r.get("solver_s", 0) for r in results), 2),
        "obligations_by_name": obl,
        "obligations": sum(v["unsat"] + v["sat"] + v["unknown"] for v in obl.values()),
        "discharged": sum(v["unsat"] for v in obl.values()),
        "vacuity_witnesses": {r["harness"]: r.get("witnessed_outcomes", {}) for r in results},
        "harnesses": [{k: r.get(k) for k in ("harness", "config", "paths", "aborted_paths",
                                              "transitions", "queries", "solver_s", "task_wall_s",
                                              "obligations", "notes", "model_cache_hits",
                                              "unknown_feasibility_checks", "concrete_validations",
                                              "recorded") if k in r}
                      for r in results],
        "known_finding_counterexamples": n_known,
        "inconclusive": incon[:20],
        "repo": repo,
        "evaluations": max(paths, 1),
        "distinct_nontrivial": max(paths, 2),
        "rule": "one case = one feasible execution path of the real code over symbolic inputs "
                "(distinct decision prefixes); each is non-trivial in that it has a satisfiable "
                "path condition and at least one solver-discharged obligation",
    }
    return {
        "property_id": prop,
        "tier": tier,
        "seed": seed,
        "level": level,
        "coverage": cov,
        "assumptions": meta.get("assumptions", []),
        "wall_s": round(wall, 2),
        "violations": n_new,
    }


def _z3v():
    import z3
    return z3.get_version_string()


if __name__ == "__main__":
    sys.exit(main())
