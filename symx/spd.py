"""symx.spd — symmetric positive-definite matrices parametrised by T = Σ^(-1/2).

Every SPD Σ has exactly one SPD T with Σ = T^-2, so quantifying over T is quantifying over all
Σ.  `sigma` is the opaque value T^-2; np.linalg.inv and scipy.linalg.sqrtm act on the exponent;
entries are materialised as polynomials / rational functions of T only when arithmetic needs them.
"""
from __future__ import annotations

import numpy as np
import z3

from . import sym
from .arr import SymArray, _det, _inv_small, symarray
from .sym import HarnessError, Sym


class SpdMat:
    __array_ufunc__ = None

    def __init__(self, T, power):
        self.T = T  # SymArray (m, m), symmetric
        self.power = power
        self.shape = T.shape
        self.ndim = 2

    def materialise(self):
        T = self.T.view(np.ndarray)
        p = self.power
        if p == 1:
            return self.T
        if p == 2:
            return symarray(np.dot(T, T))
        if p == -1:
            return _inv_small(T)
        if p == -2:
            Ti = _inv_small(T).view(np.ndarray)
            return symarray(np.dot(Ti, Ti))
        if p == 0:
            return symarray(np.eye(T.shape[0], dtype=object))
        raise HarnessError(f"SpdMat power {p}")

    def __matmul__(self, o):
        return self.materialise() @ o

    def __rmatmul__(self, o):
        return o @ self.materialise()

    def __getitem__(self, k):
        return self.materialise()[k]

    def squeeze(self):
        return self

    def __array__(self, dtype=None, copy=None):
        return self.materialise().view(np.ndarray)

    @property
    def T_(self):
        return self.T


def spd_T(ctx, name, m):
    """fresh symmetric positive definite T (leading principal minors > 0)"""
    T = np.empty((m, m), dtype=object)
    for i in range(m):
        for j in range(i, m):
            v = ctx.real(f"{name}_{i}{j}")
            T[i, j] = v
            T[j, i] = v
    for k in range(1, m + 1):
        d = _det(T[:k, :k])
        ctx.assume(Sym.of(d) > 0)
    return T.view(SymArray)


def inv_hook(a):
    if isinstance(a, SpdMat):
        return SpdMat(a.T, -a.power)
    if isinstance(a, np.ndarray) and a.dtype == object:
        return _inv_small(a)
    return np.linalg.inv(a)


def sqrtm_hook(a):
    if isinstance(a, SpdMat):
        if a.power % 2:
            raise HarnessError("sqrtm of an odd power of T")
        r = SpdMat(a.T, a.power // 2)
        return r.materialise()
    import scipy.linalg
    return scipy.linalg.sqrtm(a)


class _SpLinalg:
    sqrtm = staticmethod(sqrtm_hook)

    def __getattr__(self, n):
        import scipy.linalg
        return getattr(scipy.linalg, n)


class SpProxy:
    """stand-in for the module global `sp` (scipy) of vopy.confidence_region"""
    linalg = _SpLinalg()

    def __getattr__(self, n):
        import scipy
        return getattr(scipy, n)


def sigma_from_T(Tvals):
    """concrete Σ = T^-2 (floats) for replay"""
    T = np.array(Tvals, dtype=float)
    Ti = np.linalg.inv(T)
    S = Ti @ Ti
    return (S + S.T) / 2
