"""symx.sym — symbolic scalars (z3 reals / booleans) that real numpy code can compute with.

Sym      wraps a z3 Real term.  Python floats met on the way are converted to the *exact*
         rational they denote (Fraction(float)), never rounded.
SymBool  wraps a z3 Bool term.  bool(SymBool) is the only place where a path forks.
Special  IEEE nan / +inf / -inf produced by a division by zero (numpy semantics).

The current exploration context is the module global CTX (set by symx.explore).
"""
from __future__ import annotations

import math
from fractions import Fraction

import numpy as np
import z3

CTX = None  # set by explore.Explorer while a path is being executed


class HarnessError(BaseException):
    """The encoding met something it cannot represent: fail closed (exit 3)."""


def _ctx():
    if CTX is None:
        raise HarnessError("symbolic value used outside an exploration context")
    return CTX


def rv(x):
    """exact z3 RealVal of a Python / numpy number"""
    if isinstance(x, bool) or isinstance(x, np.bool_):
        return z3.RealVal(1 if x else 0)
    if isinstance(x, (int, np.integer)):
        return z3.RealVal(int(x))
    if isinstance(x, Fraction):
        return z3.RealVal(str(x))
    if isinstance(x, (float, np.floating)):
        x = float(x)
        if math.isnan(x) or math.isinf(x):
            raise HarnessError("non-finite float constant in symbolic arithmetic")
        f = Fraction(x)
        return z3.RealVal(str(f))
    raise HarnessError(f"cannot convert {type(x)} to a real constant")


_NUM = (int, float, Fraction, np.integer, np.floating, bool, np.bool_)


def is_num(x):
    return isinstance(x, _NUM)


def to_z3(x):
    if isinstance(x, Sym):
        return x.e
    if isinstance(x, z3.ArithRef):
        return x
    if is_num(x):
        return rv(x)
    if isinstance(x, np.ndarray) and x.ndim == 0:
        return to_z3(x.item())
    raise HarnessError(f"cannot use {type(x)} as a symbolic real")


def const_value(e):
    """Fraction if e is a rational numeral, else None"""
    if z3.is_rational_value(e):
        return Fraction(e.numerator_as_long(), e.denominator_as_long())
    if z3.is_int_value(e):
        return Fraction(e.as_long())
    return None


class SymBool:
    __slots__ = ("e",)
    __array_ufunc__ = None  # ndarray op SymBool -> our reflected op (never used in practice)

    def __init__(self, e):
        if isinstance(e, SymBool):
            e = e.e
        elif isinstance(e, (bool, np.bool_)):
            e = z3.BoolVal(bool(e))
        self.e = e

    def __bool__(self):
        return _ctx().decide(self.e)

    def __and__(self, o):
        return SymBool(z3.And(self.e, SymBool(o).e))

    __rand__ = __and__

    def __or__(self, o):
        return SymBool(z3.Or(self.e, SymBool(o).e))

    __ror__ = __or__

    def __invert__(self):
        return SymBool(z3.Not(self.e))

    def __xor__(self, o):
        return SymBool(z3.Xor(self.e, SymBool(o).e))

    __rxor__ = __xor__

    def __repr__(self):
        return f"SymBool({self.e})"

    # counting: np.sum over an array of comparisons adds booleans as 0/1
    def _as_num(self):
        return Sym(z3.If(self.e, z3.RealVal(1), z3.RealVal(0)))

    def __add__(self, o):
        if isinstance(o, (SymBool, bool, np.bool_)):
            o = SymBool(o)._as_num()
        return self._as_num() + o

    __radd__ = __add__

    def __mul__(self, o):
        return self._as_num() * o

    __rmul__ = __mul__

    def __sub__(self, o):
        if isinstance(o, (SymBool, bool, np.bool_)):
            o = SymBool(o)._as_num()
        return self._as_num() - o

    def __rsub__(self, o):
        return o - self._as_num()

    def __truediv__(self, o):
        return self._as_num() / o

    def __rtruediv__(self, o):
        return o / self._as_num()

    def __le__(self, o): return self._as_num() <= o
    def __lt__(self, o): return self._as_num() < o
    def __ge__(self, o): return self._as_num() >= o
    def __gt__(self, o): return self._as_num() > o

    # numpy's logical_not on object arrays calls this
    def logical_not(self):
        return ~self


def sbool(x):
    """z3 Bool of a SymBool / python bool"""
    if isinstance(x, SymBool):
        return x.e
    if isinstance(x, (bool, np.bool_)):
        return z3.BoolVal(bool(x))
    if isinstance(x, z3.BoolRef):
        return x
    raise HarnessError(f"not a boolean: {type(x)}")


class Special:
    """IEEE special value (result of x/0): kind in {'nan', '+inf', '-inf'}; numpy semantics."""
    __slots__ = ("kind",)

    def __init__(self, kind):
        self.kind = kind

    def __repr__(self):
        return f"Special({self.kind})"

    # comparisons: nan compares False with everything; inf as expected against finite values
    def _cmp(self, o, op):
        if isinstance(o, np.ndarray):
            return NotImplemented
        if self.kind == "nan":
            return False
        if isinstance(o, Special):
            if o.kind == "nan":
                return False
            a = 1 if self.kind == "+inf" else -1
            b = 1 if o.kind == "+inf" else -1
            return {"lt": a < b, "le": a <= b, "gt": a > b, "ge": a >= b, "eq": a == b}[op]
        pos = self.kind == "+inf"
        return {"lt": not pos, "le": not pos, "gt": pos, "ge": pos, "eq": False}[op]

    def __lt__(self, o): return self._cmp(o, "lt")
    def __le__(self, o): return self._cmp(o, "le")
    def __gt__(self, o): return self._cmp(o, "gt")
    def __ge__(self, o): return self._cmp(o, "ge")
    def __eq__(self, o): return self._cmp(o, "eq")
    def __ne__(self, o):
        r = self._cmp(o, "eq")
        return r if r is NotImplemented else not r
    __hash__ = None

    def __neg__(self):
        return Special({"nan": "nan", "+inf": "-inf", "-inf": "+inf"}[self.kind])

    def _add(self, o):
        if isinstance(o, np.ndarray):
            return NotImplemented
        if self.kind == "nan":
            return self
        if isinstance(o, Special):
            if o.kind == "nan" or o.kind != self.kind:
                return Special("nan")
        return self

    __add__ = __radd__ = _add

    def __sub__(self, o):
        if isinstance(o, np.ndarray):
            return NotImplemented
        return self._add(-o if isinstance(o, Special) else o)

    def __rsub__(self, o):
        if isinstance(o, np.ndarray):
            return NotImplemented
        return (-self)._add(o)

    def _mul(self, o):
        if isinstance(o, np.ndarray):
            return NotImplemented
        if self.kind == "nan":
            return self
        if isinstance(o, Special):
            if o.kind == "nan":
                return o
            return Special("+inf" if o.kind == self.kind else "-inf")
        o = Sym.of(o)
        if bool(o == 0):
            return Special("nan")
        if bool(o > 0):
            return self
        return -self

    __mul__ = __rmul__ = _mul

    def __truediv__(self, o):
        if isinstance(o, np.ndarray):
            return NotImplemented
        if isinstance(o, Special):
            return Special("nan")
        o = Sym.of(o)
        if bool(o >= 0):  # x/+0 keeps the sign in numpy for +0.0
            return self
        return -self

    def __rtruediv__(self, o):
        if self.kind == "nan":
            return self
        return Sym.of(0)


class Sym:
    __slots__ = ("e",)
    # NOTE: no __array_priority__ and no __array_ufunc__ = None: `Sym < ndarray` must let numpy
    # broadcast over the array (object dtype) and call the reflected operator per element.

    def __init__(self, e):
        self.e = e

    @staticmethod
    def of(x):
        if isinstance(x, Sym):
            return x
        return Sym(to_z3(x))

    def __repr__(self):
        return f"Sym({self.e})"

    def _coerce(self, o):
        if isinstance(o, Sym):
            return o.e
        if is_num(o):
            return rv(o)
        if isinstance(o, z3.ArithRef):
            return o
        return None

    def __add__(self, o):
        if isinstance(o, (np.ndarray, Special)):
            return NotImplemented
        b = self._coerce(o)
        if b is None:
            return NotImplemented
        return Sym(z3.simplify(self.e + b)) if _both_const(self.e, b) else Sym(self.e + b)

    __radd__ = __add__

    def __sub__(self, o):
        if isinstance(o, (np.ndarray, Special)):
            return NotImplemented
        b = self._coerce(o)
        if b is None:
            return NotImplemented
        return Sym(z3.simplify(self.e - b)) if _both_const(self.e, b) else Sym(self.e - b)

    def __rsub__(self, o):
        if isinstance(o, (np.ndarray, Special)):
            return NotImplemented
        b = self._coerce(o)
        if b is None:
            return NotImplemented
        return Sym(z3.simplify(b - self.e)) if _both_const(self.e, b) else Sym(b - self.e)

    def __mul__(self, o):
        if isinstance(o, (np.ndarray, Special)):
            return NotImplemented
        b = self._coerce(o)
        if b is None:
            return NotImplemented
        cb = const_value(b)
        if cb is not None and cb == 0:
            return Sym(rv(0))
        ca = const_value(self.e)
        if ca is not None and ca == 0:
            return Sym(rv(0))
        return Sym(z3.simplify(self.e * b)) if _both_const(self.e, b) else Sym(self.e * b)

    __rmul__ = __mul__

    def __truediv__(self, o):
        if isinstance(o, (np.ndarray, Special)):
            return NotImplemented
        b = self._coerce(o)
        if b is None:
            return NotImplemented
        return _divide(self.e, b)

    def __rtruediv__(self, o):
        if isinstance(o, (np.ndarray, Special)):
            return NotImplemented
        b = self._coerce(o)
        if b is None:
            return NotImplemented
        return _divide(b, self.e)

    def __neg__(self):
        return Sym(z3.simplify(-self.e)) if const_value(self.e) is not None else Sym(-self.e)

    def __pos__(self):
        return self

    def __abs__(self):
        return Sym(z3.If(self.e >= 0, self.e, -self.e))

    def __pow__(self, k):
        if isinstance(k, Sym):
            ck = const_value(k.e)
            if ck is None:
                raise HarnessError("symbolic exponent")
            k = ck
        if isinstance(k, (float, np.floating)) and float(k) == 0.5:
            return self.sqrt()
        if isinstance(k, (float, np.floating, Fraction)) and float(k) == int(k):
            k = int(k)
        if isinstance(k, (int, np.integer)):
            k = int(k)
            if k == 0:
                return Sym(rv(1))
            if k < 0:
                return Sym(rv(1)) / (self ** (-k))
            r = self.e
            for _ in range(k - 1):
                r = r * self.e
            return Sym(r)
        raise HarnessError(f"unsupported exponent {k!r}")

    # comparisons -> SymBool
    def _cmp(self, o, f, name=""):
        if isinstance(o, np.ndarray):
            return NotImplemented
        if isinstance(o, Special):
            return NotImplemented
        if isinstance(o, (float, np.floating)) and (math.isinf(o) or math.isnan(o)):
            # a symbolic real is finite: comparisons with ±inf / nan are constants (IEEE semantics)
            if math.isnan(o):
                return SymBool(f(z3.RealVal(0), z3.RealVal(0)) if False else z3.BoolVal(name == "ne"))
            big = z3.RealVal(1) if o > 0 else z3.RealVal(-1)
            return SymBool(z3.simplify(f(z3.RealVal(0), big)))
        b = self._coerce(o)
        if b is None:
            return NotImplemented
        return SymBool(f(self.e, b))

    def __lt__(self, o): return self._cmp(o, lambda a, b: a < b)
    def __le__(self, o): return self._cmp(o, lambda a, b: a <= b)
    def __gt__(self, o): return self._cmp(o, lambda a, b: a > b)
    def __ge__(self, o): return self._cmp(o, lambda a, b: a >= b)
    def __eq__(self, o): return self._cmp(o, lambda a, b: a == b)
    def __ne__(self, o): return self._cmp(o, lambda a, b: a != b, "ne")
    __hash__ = None

    # numpy object-dtype ufunc hooks ------------------------------------------------------
    def sqrt(self):
        c = const_value(self.e)
        if c is not None:
            if c < 0:
                return Special("nan")
            n, d = c.numerator, c.denominator
            rn, rd = math.isqrt(n), math.isqrt(d)
            if rn * rn == n and rd * rd == d:
                return Sym(rv(Fraction(rn, rd)))
        return _ctx().sqrt_of(self.e)

    def conjugate(self):
        return self

    @property
    def real(self):
        return self

    @property
    def imag(self):
        return Sym(rv(0))

    def __format__(self, spec):   # logging / f-strings: formatting is not the subject of any property
        return "<sym>"

    def __float__(self):
        c = const_value(z3.simplify(self.e))
        if c is not None:
            return float(c)
        raise HarnessError("float() of a symbolic real: the code left the symbolic domain")

    def __int__(self):
        c = const_value(z3.simplify(self.e))
        if c is not None and c.denominator == 1:
            return int(c)
        raise HarnessError("int() of a symbolic real")

    def __index__(self):
        return self.__int__()

    def __bool__(self):
        return bool(self != 0)

    def __round__(self, n=None):
        raise HarnessError("round() of a symbolic real")


def _both_const(a, b):
    return const_value(a) is not None and const_value(b) is not None


def _divide(num, den):
    cd = const_value(den)
    if cd is not None:
        if cd != 0:
            cn = const_value(num)
            if cn is not None:
                return Sym(rv(cn / cd))
            return Sym(num / den)
        zero = True
    else:
        zero = _ctx().decide(den == 0)
    if not zero:
        t = _ctx().recip_of(den)
        if t is not None:
            return Sym(num * t)
        return Sym(num / den)
    # numpy semantics for x / 0.0: +-inf or nan (sign of the zero is taken as +0)
    ctx = _ctx()
    ctx.note("division_by_zero")
    if ctx.decide(num == 0):
        return Special("nan")
    if ctx.decide(num > 0):
        return Special("+inf")
    return Special("-inf")


def ite(c, a, b):
    """If-then-else on symbolic scalars (no fork)."""
    if isinstance(c, (bool, np.bool_)):
        return a if c else b
    ce = sbool(c)
    if z3.is_true(ce):
        return a
    if z3.is_false(ce):
        return b
    if isinstance(a, (SymBool, bool, np.bool_)) and isinstance(b, (SymBool, bool, np.bool_)):
        return SymBool(z3.If(ce, sbool(a), sbool(b)))
    if isinstance(a, Special) or isinstance(b, Special):
        return a if bool(SymBool(ce)) else b
    return Sym(z3.If(ce, to_z3(a), to_z3(b)))


def smin(a, b):
    if isinstance(a, Special) or isinstance(b, Special):
        return a if bool(a <= b) else b
    if is_num(a) and is_num(b):
        return min(a, b)
    ae, be = to_z3(a), to_z3(b)
    return Sym(z3.If(ae <= be, ae, be))


def smax(a, b):
    if isinstance(a, Special) or isinstance(b, Special):
        return a if bool(a >= b) else b
    if is_num(a) and is_num(b):
        return max(a, b)
    ae, be = to_z3(a), to_z3(b)
    return Sym(z3.If(ae >= be, ae, be))
