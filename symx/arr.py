"""symx.arr — SymArray (object-dtype ndarray subclass) and NpProxy (stand-in for the module
global `np` of the VOPy module under analysis).

Real numpy performs all shape / broadcasting / indexing / matmul work; only three families are
intercepted so that values are merged instead of forked: comparison ufuncs return arrays of
SymBool, logical reductions fold to one SymBool, minimum/maximum build If-terms.
"""
from __future__ import annotations

import numpy as np
import z3

from . import sym
from .sym import HarnessError, Special, Sym, SymBool, is_num, ite, smax, smin

_CMP = {np.greater, np.greater_equal, np.less, np.less_equal, np.equal, np.not_equal}


def _base(x):
    if isinstance(x, SymArray):
        return x.view(np.ndarray)
    if isinstance(x, (list, tuple)):
        return type(x)(_base(y) for y in x)
    return x


def wrap(r):
    if isinstance(r, np.ndarray):
        if r.dtype == object:
            if r.ndim == 0:
                return r.item()
            return r.view(SymArray)
        return r
    if isinstance(r, tuple):
        return tuple(wrap(x) for x in r)
    if isinstance(r, list):
        return [wrap(x) for x in r]
    return r


def _is_symbool_like(x):
    return isinstance(x, (SymBool, bool, np.bool_))


def _fold(op, arr, axis, keepdims=False):
    """fold a boolean object array with & or | along axis (None = all)"""
    a = np.asarray(arr, dtype=object)
    ident = op == "and"

    def red(vals):
        acc = ident
        for v in vals:
            if isinstance(v, (bool, np.bool_)):
                if op == "and":
                    if not v:
                        return False
                else:
                    if v:
                        return True
                continue
            if isinstance(v, (Sym,)) or is_num(v):
                v = Sym.of(v) != 0
            if not isinstance(v, SymBool):
                raise HarnessError(f"logical reduction over {type(v)}")
            if isinstance(acc, bool):
                acc = v
            else:
                acc = (acc & v) if op == "and" else (acc | v)
        if isinstance(acc, SymBool):
            e = z3.simplify(acc.e)
            if z3.is_true(e):
                return True
            if z3.is_false(e):
                return False
        return acc

    if axis is None:
        r = red(list(a.ravel()))
        if keepdims:
            out = np.empty((1,) * a.ndim, dtype=object)
            out[...] = r
            return out.view(SymArray)
        return r
    if isinstance(axis, tuple):
        if len(axis) != 1:
            raise HarnessError("multi-axis logical reduction")
        axis = axis[0]
    axis = axis % a.ndim
    moved = np.moveaxis(a, axis, -1)
    out = np.empty(moved.shape[:-1], dtype=object)
    for idx in np.ndindex(*moved.shape[:-1]):
        out[idx] = red(list(moved[idx]))
    if keepdims:
        out = np.expand_dims(out, axis)
    if out.ndim == 0:
        return out.item()
    return out.view(SymArray)


def _minmax_reduce(which, arr, axis, keepdims=False):
    a = np.asarray(arr, dtype=object)
    f = smin if which == "min" else smax

    def red(vals):
        acc = vals[0]
        for v in vals[1:]:
            acc = f(acc, v)
        return acc

    if axis is None:
        if a.size == 0:
            raise ValueError("zero-size array to reduction operation which has no identity")
        return red(list(a.ravel()))
    if isinstance(axis, tuple):
        if len(axis) != 1:
            raise HarnessError("multi-axis min/max")
        axis = axis[0]
    axis = axis % a.ndim
    moved = np.moveaxis(a, axis, -1)
    if moved.shape[-1] == 0:
        raise ValueError("zero-size array to reduction operation which has no identity")
    out = np.empty(moved.shape[:-1], dtype=object)
    for idx in np.ndindex(*moved.shape[:-1]):
        out[idx] = red(list(moved[idx]))
    if keepdims:
        out = np.expand_dims(out, axis)
    if out.ndim == 0:
        return out.item()
    return out.view(SymArray)


def _elementwise(f, *arrs):
    bs = np.broadcast_arrays(*[np.asarray(_base(a), dtype=object) for a in arrs])
    out = np.empty(bs[0].shape, dtype=object)
    for idx in np.ndindex(*out.shape):
        out[idx] = f(*[b[idx] for b in bs])
    if out.ndim == 0:
        return out.item()
    return out.view(SymArray)


def _has_symbool(a):
    if isinstance(a, np.ndarray) and a.dtype == object:
        for v in a.ravel():
            if isinstance(v, SymBool):
                return True
    return False


class SymArray(np.ndarray):
    __array_priority__ = 100.0

    def __array_finalize__(self, obj):
        pass

    def __array_ufunc__(self, ufunc, method, *inputs, out=None, **kw):
        ins = [_base(x) for x in inputs]
        if out is not None:
            kw["out"] = tuple(_base(o) for o in out)
        if ufunc in _CMP and method == "__call__":
            kw.pop("dtype", None)
            r = ufunc(*[np.asarray(i, dtype=object) if not isinstance(i, np.ndarray) or
                        i.dtype != object else i for i in ins], dtype=object, **kw)
            return wrap(r)
        if ufunc in (np.logical_and, np.logical_or):
            op = "and" if ufunc is np.logical_and else "or"
            if method == "reduce":
                return _fold(op, ins[0], kw.get("axis", 0), kw.get("keepdims", False))
            if method == "__call__":
                return _elementwise(
                    (lambda a, b: _bool_and(a, b)) if op == "and" else (lambda a, b: _bool_or(a, b)),
                    ins[0], ins[1])
        if ufunc is np.logical_not and method == "__call__":
            return _elementwise(_bool_not, ins[0])
        if ufunc in (np.bitwise_and, np.bitwise_or, np.invert) and method == "__call__":
            if ufunc is np.invert:
                return _elementwise(_bool_not, ins[0])
            return _elementwise(_bool_and if ufunc is np.bitwise_and else _bool_or, ins[0], ins[1])
        if ufunc in (np.minimum, np.maximum):
            which = "min" if ufunc is np.minimum else "max"
            if method == "reduce":
                return _minmax_reduce(which, ins[0], kw.get("axis", 0), kw.get("keepdims", False))
            if method == "__call__":
                return _elementwise(smin if which == "min" else smax, ins[0], ins[1])
        if ufunc is np.sqrt and method == "__call__":
            return _elementwise(_sqrt1, ins[0])
        if ufunc is np.absolute and method == "__call__":
            return _elementwise(abs, ins[0])
        if ufunc is np.square and method == "__call__":
            return _elementwise(lambda v: v * v, ins[0])
        if ufunc is np.sign:
            raise HarnessError("np.sign on symbolic array")
        if ufunc is np.isnan and method == "__call__":
            return _elementwise(lambda v: isinstance(v, Special) and v.kind == "nan", ins[0])
        if ufunc is np.isinf and method == "__call__":
            return _elementwise(lambda v: isinstance(v, Special) and v.kind != "nan", ins[0])
        if ufunc is np.isfinite and method == "__call__":
            return _elementwise(lambda v: not isinstance(v, Special), ins[0])
        r = getattr(ufunc, method)(*ins, **kw)
        return wrap(r)

    def __array_function__(self, func, types, args, kwargs):
        if func is np.all or func is np.any:
            a = args[0]
            axis = kwargs.get("axis", args[1] if len(args) > 1 else None)
            return _fold("and" if func is np.all else "or", _base(a), axis,
                         kwargs.get("keepdims", False))
        if func is np.min or func is np.amin or func is np.max or func is np.amax:
            axis = kwargs.get("axis", args[1] if len(args) > 1 else None)
            return _minmax_reduce("min" if func in (np.min, np.amin) else "max", _base(args[0]),
                                  axis, kwargs.get("keepdims", False))
        if func is np.where and len(args) == 3:
            return _elementwise(ite, *args)
        if func is np.linalg.norm:
            return _norm(*args, **kwargs)
        if func is np.allclose:
            return _allclose(*args, **kwargs)
        if func is np.isclose:
            return _isclose(*args, **kwargs)
        if func is np.array_equal:
            a, b = np.asarray(_base(args[0]), dtype=object), np.asarray(_base(args[1]), dtype=object)
            if a.shape != b.shape:
                return False
            return _fold("and", _elementwise(lambda x, y: x == y, a, b), None)
        if func is np.linalg.inv or func is np.linalg.cholesky or func is np.linalg.det:
            raise HarnessError(f"{func.__name__} reached numpy on a symbolic array (needs NpProxy)")
        if func in (np.maximum.reduce, np.minimum.reduce):
            pass
        a2 = [_base(a) for a in args]
        k2 = {k: _base(v) for k, v in kwargs.items()}
        r = func(*a2, **k2)
        return wrap(r)

    # reductions as methods go through the ufunc machinery (np.logical_and.reduce etc.)
    def all(self, axis=None, out=None, keepdims=False, **kw):
        return _fold("and", self.view(np.ndarray), axis, keepdims)

    def any(self, axis=None, out=None, keepdims=False, **kw):
        return _fold("or", self.view(np.ndarray), axis, keepdims)

    def min(self, axis=None, out=None, keepdims=False, **kw):
        return _minmax_reduce("min", self.view(np.ndarray), axis, keepdims)

    def max(self, axis=None, out=None, keepdims=False, **kw):
        return _minmax_reduce("max", self.view(np.ndarray), axis, keepdims)

    def __bool__(self):
        if self.size != 1:
            raise ValueError("The truth value of an array with more than one element is ambiguous."
                             " Use a.any() or a.all()")
        v = self.view(np.ndarray).ravel()[0]
        return bool(v)

    def __getitem__(self, key):
        key = self._concretise_key(key)
        r = np.ndarray.__getitem__(self, key)
        if isinstance(r, np.ndarray) and not isinstance(r, SymArray) and r.dtype == object:
            r = r.view(SymArray)
        return r

    def __setitem__(self, key, value):
        if isinstance(key, np.ndarray) and key.dtype == object and _has_symbool(key):
            # masked assignment with a symbolic mask: merge with If (no fork) when the value is a
            # scalar or has the array's shape; otherwise (value laid out per selected element, as in
            # `a[mask] += c`) the mask is concretised by forking
            base = self.view(np.ndarray)
            k = np.asarray(_base(key), dtype=object)
            v = np.asarray(_base(value), dtype=object)
            if k.shape == base.shape and (v.ndim == 0 or v.shape == base.shape):
                val = np.broadcast_to(v, base.shape)
                for idx in np.ndindex(*base.shape):
                    base[idx] = ite(k[idx], val[idx], base[idx])
                return
        key = self._concretise_key(key)
        np.ndarray.__setitem__(self, key, _base(value))

    @staticmethod
    def _concretise_key(key):
        if isinstance(key, np.ndarray) and key.dtype == object and key.size and \
                all(_is_symbool_like(v) for v in key.ravel()):
            k = np.asarray(_base(key), dtype=object)
            out = np.empty(k.shape, dtype=bool)
            for idx in np.ndindex(*k.shape):
                out[idx] = bool(k[idx])  # forks
            return out
        return key

    def astype(self, dtype, *a, **k):
        if np.dtype(dtype) == object:
            return self
        if np.dtype(dtype).kind in "fc":
            return self  # stay symbolic: float conversion is the identity on reals
        if np.dtype(dtype) == np.bool_:
            out = np.empty(self.shape, dtype=bool)
            b = self.view(np.ndarray)
            for idx in np.ndindex(*self.shape):
                out[idx] = bool(b[idx])
            return out
        if np.dtype(dtype).kind in "iu" and contains_sym(self):
            return _elementwise(_trunc1, self)  # C cast: truncation toward zero
        return np.ndarray.astype(self.view(np.ndarray), dtype, *a, **k)

    def copy(self, *a, **k):
        return np.ndarray.copy(self.view(np.ndarray), *a, **k).view(SymArray)

    def __deepcopy__(self, memo):
        return self.copy()


def _bool_and(a, b):
    if isinstance(a, (bool, np.bool_)):
        return b if a else False
    if isinstance(b, (bool, np.bool_)):
        return a if b else False
    return a & b


def _bool_or(a, b):
    if isinstance(a, (bool, np.bool_)):
        return True if a else b
    if isinstance(b, (bool, np.bool_)):
        return True if b else a
    return a | b


def _bool_not(a):
    if isinstance(a, (bool, np.bool_)):
        return not a
    return ~a


def _trunc1(v):
    """float → integer cast (toward zero) of a symbolic real, kept as a real-sorted term"""
    import z3
    if isinstance(v, Special):
        raise HarnessError("integer cast of nan/inf")
    if not isinstance(v, Sym):
        return int(v)
    e = v.e
    return Sym(z3.If(e >= 0, z3.ToReal(z3.ToInt(e)), -z3.ToReal(z3.ToInt(-e))))


def _round1(v, decimals=0):
    """numpy's round (half to even) of a symbolic real to `decimals` places, as a real-sorted term"""
    import z3
    if isinstance(v, Special):
        return v
    if not isinstance(v, Sym):
        return round(v, decimals)
    from fractions import Fraction
    from .sym import rv
    scale = rv(Fraction(10) ** int(decimals))
    y = v.e * scale
    n = z3.ToInt(y)                      # floor
    fr = y - z3.ToReal(n)
    up = z3.Or(fr > rv(Fraction(1, 2)), z3.And(fr == rv(Fraction(1, 2)), n % 2 == 1))
    return Sym(z3.If(up, z3.ToReal(n) + 1, z3.ToReal(n)) / scale)


def _sqrt1(v):
    if isinstance(v, Special):
        return v if v.kind != "-inf" else Special("nan")
    return Sym.of(v).sqrt()


def _norm(x, ord=None, axis=None, keepdims=False):
    if ord is not None and ord != 2 and ord != "fro":
        raise HarnessError(f"norm ord={ord}")
    a = np.asarray(_base(x), dtype=object)

    def n1(vals):
        acc = 0
        for v in vals:
            if isinstance(v, Special):
                return Special("nan") if v.kind == "nan" else Special("+inf")
            acc = acc + Sym.of(v) * Sym.of(v)
        acc = Sym.of(acc)
        c = sym.const_value(z3.simplify(acc.e))
        if c is not None:
            return Sym(sym.rv(c)).sqrt()
        return sym._ctx().sqrt_of(acc.e, nonneg=True)

    if axis is None:
        if a.ndim > 2:
            raise HarnessError("norm of >2-d array without axis")
        return n1(list(a.ravel()))
    axis = axis % a.ndim
    moved = np.moveaxis(a, axis, -1)
    out = np.empty(moved.shape[:-1], dtype=object)
    for idx in np.ndindex(*moved.shape[:-1]):
        out[idx] = n1(list(moved[idx]))
    if keepdims:
        out = np.expand_dims(out, axis)
    return wrap(out)


def _isclose(a, b, rtol=1e-05, atol=1e-08, equal_nan=False):
    def f(x, y):
        if isinstance(x, Special) or isinstance(y, Special):
            return bool(x == y)
        return abs(Sym.of(x) - y) <= atol + rtol * abs(Sym.of(y))
    return _elementwise(f, a, b)


def _allclose(a, b, rtol=1e-05, atol=1e-08, equal_nan=False):
    r = _isclose(a, b, rtol, atol, equal_nan)
    if isinstance(r, np.ndarray):
        return _fold("and", r, None)
    return r


def symarray(x):
    """object ndarray / nested lists -> SymArray"""
    a = np.asarray(_base(x), dtype=object) if not isinstance(x, np.ndarray) else x
    if a.dtype != object:
        a = a.astype(object)
    return a.view(SymArray)


def contains_sym(x):
    if isinstance(x, (Sym, SymBool, Special)):
        return True
    if isinstance(x, np.ndarray):
        return x.dtype == object
    if isinstance(x, (list, tuple)):
        return any(contains_sym(y) for y in x)
    return False


# ------------------------------------------------------------------------------------------
class _LinalgProxy:
    def __init__(self, owner):
        self._o = owner

    def __getattr__(self, n):
        return getattr(np.linalg, n)

    def norm(self, x, ord=None, axis=None, keepdims=False):
        if contains_sym(x):
            return _norm(x, ord, axis, keepdims)
        return np.linalg.norm(x, ord, axis, keepdims)

    def inv(self, a):
        h = self._o._hooks.get("inv")
        if h is not None:
            return h(a)
        if contains_sym(a):
            return _inv_small(a)
        return np.linalg.inv(a)

    def cholesky(self, a):
        h = self._o._hooks.get("cholesky")
        if h is not None:
            return h(a)
        if contains_sym(a):
            return _chol_small(np.asarray(_base(a), dtype=object))
        return np.linalg.cholesky(a)

    def det(self, a):
        if contains_sym(a):
            return _det(np.asarray(_base(a), dtype=object))
        return np.linalg.det(a)


def _chol_small(a):
    """Cholesky–Banachiewicz on a small symbolic SPD matrix (exact reals: square roots and quotients are engine terms)"""
    if a.ndim != 2 or a.shape[0] != a.shape[1] or a.shape[0] > 4:
        raise HarnessError(f"symbolic cholesky of shape {a.shape}")
    n = a.shape[0]
    L = np.empty((n, n), dtype=object)
    for i in range(n):
        for j in range(n):
            L[i, j] = Sym.of(0)
    for i in range(n):
        for j in range(i + 1):
            acc = Sym.of(a[i, j])
            for k in range(j):
                acc = acc - L[i, k] * L[j, k]
            if i == j:
                L[i, j] = _sqrt1(acc)
                if isinstance(L[i, j], Special):
                    raise HarnessError("symbolic cholesky of a matrix that is not positive definite on this path")
            else:
                L[i, j] = acc / L[j, j]
    return L.view(SymArray)


def _det(a):
    n = a.shape[0]
    if n == 1:
        return a[0, 0]
    if n == 2:
        return a[0, 0] * a[1, 1] - a[0, 1] * a[1, 0]
    tot = 0
    for j in range(n):
        minor = np.delete(np.delete(a, 0, axis=0), j, axis=1)
        tot = tot + ((-1) ** j) * a[0, j] * _det(minor)
    return tot


def _inv_small(a):
    a = np.asarray(_base(a), dtype=object)
    n = a.shape[0]
    d = Sym.of(_det(a))
    out = np.empty((n, n), dtype=object)
    for i in range(n):
        for j in range(n):
            minor = np.delete(np.delete(a, j, axis=0), i, axis=1)
            c = _det(minor) if n > 1 else 1
            out[i, j] = ((-1) ** (i + j)) * Sym.of(c) / d
    return out.view(SymArray)


class _RandomProxy:
    def __init__(self, owner):
        self._o = owner

    def __getattr__(self, n):
        h = self._o._hooks.get("random." + n)
        if h is not None:
            return h
        return getattr(np.random, n)


class NpProxy:
    """Stand-in for a module's `np`.  Forwards everything to numpy except the short list of
    functions that cannot work on object arrays.  `hooks` lets a check install stubs
    (e.g. 'inv', 'cholesky', 'random.normal', 'log', 'tan', ...)."""

    def __init__(self, hooks=None, symbolic_alloc=True):
        self._hooks = dict(hooks or {})
        self._symalloc = symbolic_alloc
        self.linalg = _LinalgProxy(self)
        self.random = _RandomProxy(self)

    def __getattr__(self, n):
        h = self._hooks.get(n)
        if h is not None:
            return h
        return getattr(np, n)

    # -- allocation: object arrays so that symbolic values can be stored --------------------
    def _alloc(self, f, shape, dtype, fill):
        if dtype is not None and np.dtype(dtype).kind not in "fc" or not self._symalloc:
            return f(shape, dtype=dtype) if dtype is not None else f(shape)
        a = np.empty(shape, dtype=object)
        a[...] = fill
        return a.view(SymArray)

    def zeros(self, shape, dtype=None, **kw):
        return self._alloc(np.zeros, shape, dtype, 0)

    def ones(self, shape, dtype=None, **kw):
        return self._alloc(np.ones, shape, dtype, 1)

    def empty(self, shape, dtype=None, **kw):
        return self._alloc(np.empty, shape, dtype, 0)

    def full(self, shape, fill_value, dtype=None, **kw):
        if dtype is not None and np.dtype(dtype).kind not in "fc":
            return np.full(shape, fill_value, dtype=dtype)
        if not contains_sym(fill_value):
            return np.full(shape, fill_value, dtype=dtype)
        a = np.empty(shape, dtype=object)
        a[...] = fill_value
        return a.view(SymArray)

    def zeros_like(self, a, dtype=None, **kw):
        return self.zeros(np.shape(a), dtype if dtype is not None else
                          (None if _objlike(a) else np.asarray(a).dtype))

    def ones_like(self, a, dtype=None, **kw):
        return self.ones(np.shape(a), dtype if dtype is not None else
                         (None if _objlike(a) else np.asarray(a).dtype))

    def empty_like(self, a, dtype=None, **kw):
        return self.empty(np.shape(a), dtype if dtype is not None else
                          (None if _objlike(a) else np.asarray(a).dtype))

    def eye(self, n, m=None, k=0, dtype=None, **kw):
        e = np.eye(n, m, k)
        if dtype is not None and np.dtype(dtype).kind not in "fc" or not self._symalloc:
            return np.eye(n, m, k, dtype=dtype) if dtype is not None else e
        a = np.empty(e.shape, dtype=object)
        for idx in np.ndindex(*e.shape):
            a[idx] = int(e[idx])
        return a.view(SymArray)

    def array(self, obj, dtype=None, *a, **kw):
        if contains_sym(obj) and (dtype is None or (dtype is not object and np.dtype(dtype).kind in "fc")):
            dtype = None   # float conversion is the identity on symbolic reals
        if dtype is None and contains_sym(obj):
            r = np.array(_base(obj), dtype=object, *a, **kw)
            if r.ndim == 0:
                return r
            return r.view(SymArray)
        if contains_sym(obj) and dtype is not object and np.dtype(dtype).kind in "iu":
            return _elementwise(_trunc1, np.array(_base(obj), dtype=object).view(SymArray))  # C cast: truncation toward zero
        return np.array(_base(obj) if contains_sym(obj) else obj, dtype, *a, **kw)

    def asarray(self, obj, dtype=None, *a, **kw):
        if isinstance(obj, SymArray) and dtype is None:
            return obj
        return self.array(obj, dtype, *a, **kw)

    # -- value functions --------------------------------------------------------------------
    def sqrt(self, x):
        if contains_sym(x):
            return _elementwise(_sqrt1, x)
        return np.sqrt(x)

    def abs(self, x):
        if contains_sym(x):
            return _elementwise(abs, x)
        return np.abs(x)

    def round(self, x, decimals=0, **kw):
        if contains_sym(x):
            return _elementwise(lambda v: _round1(v, decimals), x)
        return np.round(x, decimals, **kw)

    around = round

    absolute = abs

    def allclose(self, a, b, rtol=1e-05, atol=1e-08, equal_nan=False):
        if contains_sym(a) or contains_sym(b):
            return _allclose(a, b, rtol, atol, equal_nan)
        return np.allclose(a, b, rtol, atol, equal_nan)

    def isclose(self, a, b, rtol=1e-05, atol=1e-08, equal_nan=False):
        if contains_sym(a) or contains_sym(b):
            return _isclose(a, b, rtol, atol, equal_nan)
        return np.isclose(a, b, rtol, atol, equal_nan)

    def all(self, a, axis=None, **kw):
        if contains_sym(a):
            return _fold("and", np.asarray(_base(a), dtype=object), axis, kw.get("keepdims", False))
        return np.all(a, axis=axis, **kw)

    def any(self, a, axis=None, **kw):
        if contains_sym(a):
            return _fold("or", np.asarray(_base(a), dtype=object), axis, kw.get("keepdims", False))
        return np.any(a, axis=axis, **kw)

    def min(self, a, axis=None, **kw):
        if contains_sym(a):
            return _minmax_reduce("min", np.asarray(_base(a), dtype=object), axis,
                                  kw.get("keepdims", False))
        return np.min(a, axis=axis, **kw)

    def max(self, a, axis=None, **kw):
        if contains_sym(a):
            return _minmax_reduce("max", np.asarray(_base(a), dtype=object), axis,
                                  kw.get("keepdims", False))
        return np.max(a, axis=axis, **kw)

    amin, amax = min, max

    def minimum(self, a, b):
        if contains_sym(a) or contains_sym(b):
            return _elementwise(smin, a, b)
        return np.minimum(a, b)

    def maximum(self, a, b):
        if contains_sym(a) or contains_sym(b):
            return _elementwise(smax, a, b)
        return np.maximum(a, b)

    def where(self, c, *ab):
        if len(ab) == 2 and (contains_sym(c) or contains_sym(ab[0]) or contains_sym(ab[1])):
            return _elementwise(ite, c, *ab)
        return np.where(c, *ab)

    def mean(self, a, axis=None, **kw):
        if contains_sym(a):
            b = np.asarray(_base(a), dtype=object)
            if axis is None:
                n = b.size
            else:
                n = b.shape[axis]
            s = np.sum(b, axis=axis, **kw)
            if n == 0:
                raise HarnessError("mean of empty symbolic array")
            r = s * Sym(sym.rv(1)) / n if not isinstance(s, np.ndarray) else \
                _elementwise(lambda v: Sym.of(v) / n, s)
            return r
        return np.mean(a, axis=axis, **kw)

    def var(self, a, axis=None, ddof=0, **kw):
        if contains_sym(a):
            b = np.asarray(_base(a), dtype=object)
            mu = self.mean(b, axis=axis, keepdims=True) if axis is not None else self.mean(b)
            d = b - _base(mu)
            sq = d * d
            n = b.size if axis is None else b.shape[axis]
            s = np.sum(sq, axis=axis)
            den = n - ddof
            if isinstance(s, np.ndarray):
                return _elementwise(lambda v: Sym.of(v) / den, s)
            return Sym.of(s) / den
        return np.var(a, axis=axis, ddof=ddof, **kw)

    def isnan(self, x):
        if contains_sym(x):
            return _elementwise(lambda v: isinstance(v, Special) and v.kind == "nan", x)
        return np.isnan(x)

    def dot(self, a, b):
        if contains_sym(a) or contains_sym(b):
            return wrap(np.dot(np.asarray(_base(a), dtype=object), np.asarray(_base(b), dtype=object)))
        return np.dot(a, b)

    def matmul(self, a, b):
        if contains_sym(a) or contains_sym(b):
            return wrap(np.matmul(np.asarray(_base(a), dtype=object),
                                  np.asarray(_base(b), dtype=object)))
        return np.matmul(a, b)


def _objlike(a):
    return isinstance(a, np.ndarray) and a.dtype == object
