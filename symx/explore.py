"""symx.explore — path exploration of real Python/numpy code over symbolic scalars.

DFS over decision prefixes with re-execution (CrossHair's scheme); values stay symbolic through
numpy (see symx.arr).  Each path owns a z3 solver holding assumptions + path condition + stub
facts; obligations are discharged at the end of the path with push/pop.
"""
from __future__ import annotations

import time
import traceback
from fractions import Fraction

import z3

from . import sym
from .sym import HarnessError, Sym, SymBool


class PathAbort(BaseException):
    """path dropped (infeasible after an assumption / pruned by the harness)"""


class Inconclusive(BaseException):
    """solver unknown / budget exhausted: never success, never violation (exit 3)"""


def model_value(m, e):
    v = m.eval(e, model_completion=True)
    c = sym.const_value(v)
    if c is not None:
        return c
    if z3.is_algebraic_value(v):
        a = v.approx(30)
        return Fraction(a.numerator_as_long(), a.denominator_as_long())
    if z3.is_true(v):
        return True
    if z3.is_false(v):
        return False
    return str(v)


class Ctx:
    def __init__(self, explorer, prefix):
        self.x = explorer
        self.prefix = prefix
        self.decisions = []
        self.solver = z3.Solver()
        self.solver.set("timeout", explorer.query_timeout_ms)
        self.counter = 0
        self.assumptions = []
        self.facts = []
        self.pathcond = []
        self.notes = []
        self.sqrt_cache = {}
        self.sqrt_vars = {}   # id of sqrt variable -> radicand
        self.recips = {}
        self.models = []  # model cache (concolic): models of the current path condition
        self.labels = []
        self.user = {}

    # -- variables ------------------------------------------------------------------------
    def fresh(self, name="v"):
        self.counter += 1
        return z3.Real(f"{name}!{self.counter}")

    def real(self, name):
        return Sym(z3.Real(name))

    def reals(self, name, *shape):
        from .arr import SymArray
        import numpy as np
        a = np.empty(shape, dtype=object)
        for idx in np.ndindex(*shape):
            a[idx] = Sym(z3.Real(name + "_" + "_".join(map(str, idx))))
        return a.view(SymArray)

    def freshbool(self, name="b"):
        self.counter += 1
        return SymBool(z3.Bool(f"{name}!{self.counter}"))

    # -- constraints ----------------------------------------------------------------------
    def _add(self, e):
        self.solver.add(e)
        if self.models:
            self.models = [m for m in self.models if z3.is_true(m.eval(e, model_completion=True))]

    def assume(self, c):
        """harness-level assumption on the inputs (part of the claim)"""
        for e in _flat(c):
            self.assumptions.append(e)
            self._add(e)

    def fact(self, c):
        """stub contract fact (part of the claim, listed separately)"""
        for e in _flat(c):
            self.facts.append(e)
            self._add(e)

    def note(self, tag):
        self.notes.append(tag)

    def _check(self, *extra):
        t0 = time.time()
        r = self.solver.check(*extra)
        dt = time.time() - t0
        self.x.solver_s += dt
        self.x.queries[str(r)] = self.x.queries.get(str(r), 0) + 1
        return r

    def _feasible(self, e):
        for m in self.models:
            if z3.is_true(m.eval(e, model_completion=True)):
                self.x.cache_hits += 1
                return True
        r = self._check(e)
        if r == z3.sat:
            try:
                self.models.append(self.solver.model())
                if len(self.models) > 8:
                    self.models.pop(0)
            except z3.Z3Exception:
                pass
            return True
        if r == z3.unknown:
            self.x.unknown_feasibility += 1
            return True  # over-approximate the path set; the final obligation decides
        return False

    def decide(self, e):
        e = z3.simplify(e)
        if z3.is_true(e):
            return True
        if z3.is_false(e):
            return False
        i = len(self.decisions)
        if i < len(self.prefix):
            d = self.prefix[i]
        else:
            if i >= self.x.max_depth:
                raise Inconclusive(f"decision depth {i} exceeds bound {self.x.max_depth}")
            if self.x.fork_check:
                t = self._feasible(e)
                f = self._feasible(z3.Not(e))
            else:  # over-approximate: both sides scheduled, infeasible paths are vacuous (sound)
                t = f = True
            if t and f:
                d = True
                self.x.pending.append(self.decisions + [False])
            elif t:
                d = True
            elif f:
                d = False
            else:
                raise PathAbort("both sides infeasible")
        self.decisions.append(d)
        c = e if d else z3.Not(e)
        self._add(c)
        self.pathcond.append(c)
        return d

    def sqrt_of(self, e, nonneg=False):
        key = e.get_id()
        if key in self.sqrt_cache:
            return self.sqrt_cache[key]
        if not nonneg:
            if self.decide(e < 0):
                self.note("sqrt_of_negative")
                r = sym.Special("nan")
                self.sqrt_cache[key] = r
                return r
        v = self.fresh("sqrt")
        self.fact([v >= 0, v * v == e])
        r = Sym(v)
        self.sqrt_cache[key] = r
        self.sqrt_vars[v.get_id()] = e
        return r

    def recip_of(self, den):
        """division by a square-root variable n (known non-zero on this path) is multiplication by
        a reciprocal variable t with t·n = 1, t > 0, t²·radicand = 1: keeps the terms polynomial"""
        k = den.get_id()
        if k not in self.sqrt_vars:
            return None
        if k not in self.recips:
            t = self.fresh("rsqrt")
            self.fact([t > 0, t * den == 1, t * t * self.sqrt_vars[k] == 1])
            self.recips[k] = t
        return self.recips[k]

    # -- obligations ----------------------------------------------------------------------
    def prove(self, name, claim, timeout_ms=None):
        """Discharge `claim` on this path: unsat of (path ∧ ¬claim).  Returns None when proved,
        a z3 model when refuted; raises Inconclusive on unknown."""
        ce = z3.simplify(sym.sbool(claim))
        st = self.x.obligations.setdefault(name, {"unsat": 0, "sat": 0, "unknown": 0})
        if z3.is_true(ce):
            st["unsat"] += 1
            self.x.trivial_obligations += 1
            return None
        if timeout_ms:
            self.solver.set("timeout", timeout_ms)
        self.solver.push()
        self.solver.add(z3.Not(ce))
        r = self._check()
        m = self.solver.model() if r == z3.sat else None
        reason = self.solver.reason_unknown() if r == z3.unknown else None
        self.solver.pop()
        if timeout_ms:
            self.solver.set("timeout", self.x.query_timeout_ms)
        st[str(r)] += 1
        if r == z3.unknown:
            raise Inconclusive(f"obligation {name}: solver unknown ({reason})")
        return m

    def satisfiable(self, extra=None, timeout_ms=None):
        """is path ∧ extra satisfiable? returns model / None; raises Inconclusive on unknown"""
        if timeout_ms:
            self.solver.set("timeout", timeout_ms)
        self.solver.push()
        if extra is not None:
            for e in _flat(extra):
                self.solver.add(e)
        r = self._check()
        m = self.solver.model() if r == z3.sat else None
        reason = self.solver.reason_unknown() if r == z3.unknown else None
        self.solver.pop()
        if timeout_ms:
            self.solver.set("timeout", self.x.query_timeout_ms)
        if r == z3.unknown:
            raise Inconclusive(f"satisfiability query unknown ({reason})")
        return m

    def witness(self, label):
        """vacuity guard: record that a path with this outcome label is reachable (sat)"""
        self.labels.append(label)
        if self.x.witnessed.get(label, 0) and not self.x.witness_all:
            self.x.witnessed[label] += 1
            return
        if self.models:
            self.x.witnessed[label] = self.x.witnessed.get(label, 0) + 1
            return
        if self.x.witness_timeout_ms:
            self.solver.set("timeout", self.x.witness_timeout_ms)
        r = self._check()
        if self.x.witness_timeout_ms:
            self.solver.set("timeout", self.x.query_timeout_ms)
        if r == z3.sat:
            self.x.witnessed[label] = self.x.witnessed.get(label, 0) + 1
        elif r == z3.unsat:
            raise PathAbort("path condition unsatisfiable at witness point")
        else:
            self.x.witness_unknown += 1
            self.x.witnessed.setdefault(label + "(reachability unknown)", 0)
            self.x.witnessed[label + "(reachability unknown)"] += 1

    def sample(self, obj):
        if len(self.x.samples) < self.x.max_samples:
            self.x.samples.append(obj)


def _flat(c):
    import numpy as np
    if isinstance(c, (list, tuple)):
        out = []
        for x in c:
            out.extend(_flat(x))
        return out
    if isinstance(c, np.ndarray):
        out = []
        for x in c.ravel():
            out.extend(_flat(x))
        return out
    if isinstance(c, SymBool):
        return [c.e]
    if isinstance(c, (bool, np.bool_)):
        return [z3.BoolVal(bool(c))]
    if isinstance(c, z3.BoolRef):
        return [c]
    raise HarnessError(f"not a constraint: {type(c)}")


class Explorer:
    def __init__(self, name, max_paths=200000, max_depth=400, query_timeout_ms=60000,
                 wall_budget_s=None, max_samples=3, witness_all=False, fork_check=True,
                 witness_timeout_ms=None):
        self.name = name
        self.max_paths = max_paths
        self.max_depth = max_depth
        self.query_timeout_ms = query_timeout_ms
        import os
        self.wall_budget_s = wall_budget_s or float(os.environ.get("VERIF_TASK_BUDGET", "0") or 0) or None
        self.pending = []
        self.paths = 0
        self.aborted = 0
        self.transitions = 0
        self.queries = {}
        self.solver_s = 0.0
        self.cache_hits = 0
        self.unknown_feasibility = 0
        self.obligations = {}
        self.trivial_obligations = 0
        self.witnessed = {}
        self.witness_unknown = 0
        self.witness_all = witness_all
        self.fork_check = fork_check
        self.stop_after_candidates = 8
        self.n_candidates = 0
        self.witness_timeout_ms = witness_timeout_ms
        self.samples = []
        self.max_samples = max_samples
        self.violations = []
        self.inconclusive = []
        self.notes = {}
        self.wall_s = 0.0

    def run(self, fn):
        """fn(ctx) executes the real code on symbolic inputs and discharges obligations via
        ctx.prove; it reports refutations through explorer.violation(...)"""
        t0 = time.time()
        self.pending = [[]]
        while self.pending:
            if self.paths >= self.max_paths:
                self.inconclusive.append(f"path budget {self.max_paths} exhausted")
                break
            if self.wall_budget_s and time.time() - t0 > self.wall_budget_s:
                self.inconclusive.append(f"wall budget {self.wall_budget_s}s exhausted")
                break
            prefix = self.pending.pop()
            ctx = Ctx(self, prefix)
            sym.CTX = ctx
            try:
                fn(ctx)
                self.paths += 1
                self.transitions += len(ctx.decisions)
            except PathAbort:
                self.aborted += 1
            except Inconclusive as ex:
                self.paths += 1
                self.inconclusive.append(str(ex))
            except HarnessError as ex:
                self.paths += 1
                self.inconclusive.append("harness error: " + str(ex) + " @ " +
                                         _where(ex))
            except Exception as ex:  # uncaught exception in harness code = harness bug
                self.paths += 1
                self.inconclusive.append("uncaught exception in harness: " + repr(ex) + " @ " +
                                         _where(ex))
            finally:
                sym.CTX = None
                for n in ctx.notes:
                    self.notes[n] = self.notes.get(n, 0) + 1
            if len(self.inconclusive) > 20:
                break
            if getattr(self, "n_candidates", 0) >= self.stop_after_candidates:
                # several refutations already collected: the remaining paths would not change the verdict
                self.pending.clear()
                self.notes["stopped_after_candidates"] = self.n_candidates
                break
        self.wall_s = time.time() - t0
        return self

    def violation(self, **kw):
        self.violations.append(kw)

    def candidate(self, obligation, case, features=None, limit=5):
        """a solver model refuting an obligation; replayed on the real unpatched code after the
        exploration (finalize) — only reproducing ones become violations"""
        self.n_candidates = getattr(self, "n_candidates", 0) + 1
        if len(self.violations) < limit:
            self.violations.append({"obligation": obligation, "case": case,
                                    "features": dict(features or {}), "reproduced": None})

    def finalize(self, replay_fn):
        for v in self.violations:
            if v.get("reproduced") is None:
                try:
                    rep = replay_fn(v["case"])
                except Exception as ex:  # noqa
                    rep = {"reproduced": False, "detail": "replay raised " + repr(ex)}
                v["reproduced"] = bool(rep.get("reproduced"))
                v["replay_detail"] = rep.get("detail")
                for k, val in rep.items():
                    if k not in ("reproduced", "detail"):
                        v["features"].setdefault(k, val)
        return self

    def result(self):
        return {
            "harness": self.name,
            "paths": self.paths,
            "aborted_paths": self.aborted,
            "transitions": self.transitions,
            "queries": dict(self.queries),
            "solver_s": round(self.solver_s, 3),
            "wall_s": round(self.wall_s, 3),
            "model_cache_hits": self.cache_hits,
            "unknown_feasibility_checks": self.unknown_feasibility,
            "obligations": self.obligations,
            "trivially_true_obligations": self.trivial_obligations,
            "witnessed_outcomes": self.witnessed,
            "notes": self.notes,
            "samples": self.samples,
            "violations": self.violations,
            "candidates": getattr(self, "n_candidates", 0),
            "inconclusive": self.inconclusive[:10],
        }


def _where(ex):
    tb = traceback.extract_tb(ex.__traceback__)
    return " <- ".join(f"{f.name}:{f.lineno}" for f in tb[-4:][::-1])
