#!/bin/sh
# setup_cmd: build /verif/.venv offline (venv from /venv/bin/python + .pth overlay onto /venv's
# site-packages so VOPy's own dependencies are visible) and install z3-solver from the wheelhouse.
set -e
cd "$(dirname "$0")"
if [ ! -x .venv/bin/python ] || ! .venv/bin/python -c "import z3, numpy, vopy" >/dev/null 2>&1; then
  rm -rf .venv
  /venv/bin/python -m venv .venv
  SP=$(.venv/bin/python -c "import sysconfig; print(sysconfig.get_paths()['purelib'])")
  echo "import site; site.addsitedir('/venv/lib/python3.12/site-packages')" > "$SP/verif_overlay.pth"
  PIP_NO_INDEX=1 .venv/bin/pip install -q --no-index --find-links /opt/veriftools/wheels z3-solver
fi
.venv/bin/python -c "import z3, numpy, vopy; print('setup ok: z3', z3.get_version_string())"
